#!/bin/bash
# MANIFEST.setup_cmd: build the framework from files on disk only (offline, idempotent).
set -eu
export CARGO_NET_OFFLINE=true
cd /verif
mkdir -p work evidence replays
( cd sim && cargo build --release -p rt )
echo "setup done"
