#!/bin/bash
# MANIFEST.setup_cmd: build the framework from files on disk only (offline, idempotent).
set -eu
export CARGO_NET_OFFLINE=true
cd /verif
mkdir -p work evidence replays
# in-process simulators (C11 C12 C13 C14 C16)
( cd sim && cargo build --release -p rt )
# process-level compiler simulator (C09 C10): std JSON docs, LD_PRELOAD shim, pavexc, fixture workspace,
# warm cache snapshots, per-slot target dirs, goldens
/verif/sim/comp/setup_comp.sh
echo "setup done"
