//! A `tokio` look-alike used ONLY to compile `pavex_session_memory_store` for the store
//! simulator: `sync::Mutex::lock()` first passes through a simulator yield point, so that the
//! choice tape — not the real tokio scheduler — decides who runs between the moment a task asks
//! for the lock and the moment it gets it. The mutex itself is a real (single-OS-thread) async
//! mutex: at most one guard exists at a time.
pub mod sync {
    use std::cell::UnsafeCell;
    use std::future::Future;
    use std::ops::{Deref, DerefMut};
    use std::pin::Pin;
    use std::sync::atomic::{AtomicBool, AtomicU64, Ordering};
    use std::task::{Context, Poll};

    /// Number of times a task reached a lock point / found the lock taken (reach probes).
    pub static LOCK_POINTS: AtomicU64 = AtomicU64::new(0);
    pub static LOCK_CONTENDED: AtomicU64 = AtomicU64::new(0);

    pub struct Mutex<T: ?Sized> {
        locked: AtomicBool,
        data: UnsafeCell<T>,
    }

    // The simulator runs every task on one OS thread; the bounds mirror tokio's.
    unsafe impl<T: ?Sized + Send> Send for Mutex<T> {}
    unsafe impl<T: ?Sized + Send> Sync for Mutex<T> {}

    pub struct MutexGuard<'a, T: ?Sized> {
        m: &'a Mutex<T>,
    }

    impl<T> Mutex<T> {
        pub fn new(t: T) -> Self {
            Mutex { locked: AtomicBool::new(false), data: UnsafeCell::new(t) }
        }
    }

    impl<T: ?Sized> Mutex<T> {
        pub fn lock(&self) -> Lock<'_, T> {
            Lock { m: self, yielded: false }
        }
    }

    pub struct Lock<'a, T: ?Sized> {
        m: &'a Mutex<T>,
        yielded: bool,
    }

    impl<'a, T: ?Sized> Future for Lock<'a, T> {
        type Output = MutexGuard<'a, T>;
        fn poll(mut self: Pin<&mut Self>, cx: &mut Context<'_>) -> Poll<Self::Output> {
            if !self.yielded {
                // the scheduling point
                self.yielded = true;
                LOCK_POINTS.fetch_add(1, Ordering::Relaxed);
                cx.waker().wake_by_ref();
                return Poll::Pending;
            }
            if self.m.locked.swap(true, Ordering::Acquire) {
                LOCK_CONTENDED.fetch_add(1, Ordering::Relaxed);
                cx.waker().wake_by_ref();
                return Poll::Pending;
            }
            Poll::Ready(MutexGuard { m: self.m })
        }
    }

    impl<T: ?Sized> Deref for MutexGuard<'_, T> {
        type Target = T;
        fn deref(&self) -> &T {
            unsafe { &*self.m.data.get() }
        }
    }
    impl<T: ?Sized> DerefMut for MutexGuard<'_, T> {
        fn deref_mut(&mut self) -> &mut T {
            unsafe { &mut *self.m.data.get() }
        }
    }
    impl<T: ?Sized> Drop for MutexGuard<'_, T> {
        fn drop(&mut self) {
            self.m.locked.store(false, Ordering::Release);
        }
    }
    unsafe impl<T: ?Sized + Send> Send for MutexGuard<'_, T> {}
    unsafe impl<T: ?Sized + Send + Sync> Sync for MutexGuard<'_, T> {}

    impl<T: ?Sized + std::fmt::Debug> std::fmt::Debug for Mutex<T> {
        fn fmt(&self, f: &mut std::fmt::Formatter<'_>) -> std::fmt::Result {
            f.write_str("Mutex { .. }")
        }
    }
}
