"""compsim — the upstream UI-test projects of /repo/compiler/ui_tests as a second program corpus.

166 small applications (one crate + blueprint each, about half of them rule-violating) that upstream
keeps next to the compiler. They are never executed by the pinned test suite. Here they widen the
*program* dimension of C09/C10: every one of them is run under several process-level hash seeds,
cache states and output-directory states, with the same oracles as the fixture workspace.

Layout of a UI world (per slot):   <slot>/ui/R/            mirror of /repo: symlinks to everything ...
                                   <slot>/ui/R/compiler/ui_tests/   ... except this REAL copy
so that every relative path of the upstream manifests (`../../runtime/pavex`, and the
`../../../../../../runtime/pavex` that pavexc writes into the generated manifests) resolves, nothing is
rewritten, and nothing under /repo is ever written to.
"""
import fcntl
import json
import os
import re
import subprocess

from cs_util import *  # noqa: F401,F403

UI_SRC = os.path.join(REPO, "compiler", "ui_tests")
UI_LOCK_FALLBACK = os.path.join(VERIF, "fixtures", "ui_tests.Cargo.lock")
UI_REL = os.path.join("R", "compiler", "ui_tests")
N_UI_SLOTS = 8  # slots 0..7 own a cargo target dir for the UI workspace (≈1 GB each)


def ui_source_files():
    """Relative paths of the UI-test sources (everything except build output and editor droppings)."""
    out = []
    for root, dirs, files in os.walk(UI_SRC):
        dirs[:] = sorted(d for d in dirs if d not in ("target", ".git"))
        for fn in sorted(files):
            rel = os.path.relpath(os.path.join(root, fn), UI_SRC)
            if rel in ("metadata.json",):
                continue
            out.append(rel)
    return out


def list_apps():
    """[{dir, pkg, expect}] sorted by dir: one entry per UI test (a directory with test_config.toml)."""
    apps = []
    if not os.path.isdir(UI_SRC):
        return apps
    for root, dirs, files in os.walk(UI_SRC):
        dirs[:] = sorted(d for d in dirs if d not in ("target", ".git", "generated_app"))
        if "test_config.toml" in files and "Cargo.toml" in files:
            man = open(os.path.join(root, "Cargo.toml")).read()
            m = re.search(r'^name = "([^"]+)"', man, re.M)
            cfg = open(os.path.join(root, "test_config.toml")).read()
            c = re.search(r'^codegen\s*=\s*"(\w+)"', cfg, re.M)
            if not m or not os.path.exists(os.path.join(root, "src", "lib.rs")):
                continue
            apps.append({"dir": os.path.relpath(root, UI_SRC), "pkg": m.group(1),
                         "expect": "reject" if (c and c.group(1) == "fail") else "accept"})
    apps.sort(key=lambda a: a["dir"])
    return apps


def ui_digest():
    h = hashlib.sha256()
    for rel in ui_source_files():
        try:
            data = open(os.path.join(UI_SRC, rel), "rb").read()
        except OSError:
            continue
        h.update(rel.encode() + b"\0" + hashlib.sha256(data).digest())
    return h.hexdigest()


def build_mirror(dest):
    """dest/R = symlink mirror of /repo with a real copy of compiler/ui_tests."""
    r = os.path.join(dest, "R")
    os.makedirs(os.path.join(r, "compiler"))
    for e in sorted(os.listdir(REPO)):
        if e in ("compiler", "target", ".git"):
            continue
        os.symlink(os.path.join(REPO, e), os.path.join(r, e))
    for e in sorted(os.listdir(os.path.join(REPO, "compiler"))):
        if e == "ui_tests":
            continue
        os.symlink(os.path.join(REPO, "compiler", e), os.path.join(r, "compiler", e))
    ws = os.path.join(r, "compiler", "ui_tests")
    for rel in ui_source_files():
        p = os.path.join(ws, rel)
        os.makedirs(os.path.dirname(p), exist_ok=True)
        with open(os.path.join(UI_SRC, rel), "rb") as fi, open(p, "wb") as fo:
            fo.write(fi.read())
    if not os.path.exists(os.path.join(ws, "Cargo.lock")):
        if not os.path.exists(UI_LOCK_FALLBACK):
            raise HarnessError("compiler/ui_tests/Cargo.lock is missing and there is no fallback copy")
        with open(UI_LOCK_FALLBACK, "rb") as fi, open(os.path.join(ws, "Cargo.lock"), "wb") as fo:
            fo.write(fi.read())
    return ws


def build_template(state_dir, apps, log=lambda m: None):
    """state_dir/ui/R (pristine mirror) and state_dir/ui_bps/<pkg>.ron (dumped by a binary that links
    every UI application crate, rebuilt against /repo by every check)."""
    tdir = os.path.join(state_dir, "ui")
    bps = os.path.join(state_dir, "ui_bps")
    if os.path.exists(os.path.join(tdir, "ok")) and os.path.isdir(bps):
        return
    import shutil
    shutil.rmtree(tdir, ignore_errors=True)
    shutil.rmtree(bps, ignore_errors=True)
    os.makedirs(tdir)
    ws = build_mirror(tdir)
    # the dumper lives outside the UI workspace (own [workspace]); its path dependencies resolve
    # `edition.workspace` / `pavex.workspace` against the UI workspace they belong to
    ddir = os.path.join(WORK, "ui-dump")
    lock = open(os.path.join(WORK, "ui-dump.lock"), "w")
    fcntl.flock(lock, fcntl.LOCK_EX)
    try:
        os.makedirs(os.path.join(ddir, "src"), exist_ok=True)
        man = ['[package]', 'name = "uidump"', 'version = "0.0.0"', 'edition = "2021"', '', '[workspace]', '',
               '[profile.dev]', 'debug = "none"', '', '[dependencies]']
        body = ['fn main() {', '    let out = std::path::PathBuf::from(std::env::args().nth(1).expect("output dir"));',
                '    std::fs::create_dir_all(&out).unwrap();']
        for a in apps:
            man.append(f'{a["pkg"]} = {{ path = "{ws}/{a["dir"]}" }}')
            body.append(f'    {a["pkg"]}::blueprint().persist(&out.join("{a["pkg"]}.ron")).unwrap();')
        body.append('}')
        _write_if_changed(os.path.join(ddir, "Cargo.toml"), "\n".join(man) + "\n")
        _write_if_changed(os.path.join(ddir, "src", "main.rs"), "\n".join(body) + "\n")
        if not os.path.exists(os.path.join(ddir, "Cargo.lock")):
            with open(os.path.join(ws, "Cargo.lock"), "rb") as fi, open(os.path.join(ddir, "Cargo.lock"), "wb") as fo:
                fo.write(fi.read())
        env = dict(os.environ, CARGO_NET_OFFLINE="true", CARGO_TARGET_DIR=os.path.join(WORK, "ui-dump-target"))
        log(f"building the blueprint dumper of the {len(apps)} UI applications ...")
        r = subprocess.run(["cargo", "build", "--offline"], cwd=ddir, env=env, capture_output=True, text=True)
        if r.returncode != 0:
            raise HarnessError("the UI applications do not build against /repo: " + r.stderr[-1500:])
        # blueprints record source locations relative to the workspace root: run from there
        r = subprocess.run([os.path.join(WORK, "ui-dump-target", "debug", "uidump"), bps], cwd=ws, capture_output=True, text=True)
        if r.returncode != 0:
            raise HarnessError("uidump failed: " + r.stderr[-800:])
        # the dumper is not a member of the UI workspace, so rustc saw absolute source paths; upstream's
        # runner builds inside the workspace and records paths relative to its root: same here
        for fn in sorted(os.listdir(bps)):
            t = open(os.path.join(bps, fn)).read()
            with open(os.path.join(bps, fn), "w") as f:
                f.write(t.replace(ws + "/", ""))
    finally:
        fcntl.flock(lock, fcntl.LOCK_UN)
        lock.close()
    missing = [a["pkg"] for a in apps if not os.path.exists(os.path.join(bps, a["pkg"] + ".ron"))]
    if missing:
        raise HarnessError(f"uidump did not produce {missing[:5]}")
    open(os.path.join(tdir, "ok"), "w").write("ok")


def _write_if_changed(path, text):
    if os.path.exists(path) and open(path).read() == text:
        return
    with open(path, "w") as f:
        f.write(text)


def upstream_snapshot(ws, app):
    """Upstream's own expectation of the generated lib.rs (crate renamed to `app` by their runner)."""
    p = os.path.join(ws, app["dir"], "expectations", "app.rs")
    if not os.path.exists(p):
        return None
    return open(p, "rb").read()
