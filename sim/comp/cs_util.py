"""compsim — shared helpers: paths, PRNG, hashing, fixture rendering (stdlib only)."""
import hashlib
import json
import os
import re
import sys

VERIF = "/verif"
WORK = os.path.join(VERIF, "work", "comp")
FIXTURE = os.path.join(VERIF, "fixtures", "ws")
CORPUS_JSON = os.path.join(VERIF, "fixtures", "corpus.json")
SHIM_SRC = os.path.join(VERIF, "sim", "comp", "verifshim.c")
SHIM_SO = os.path.join(VERIF, "work", "verifshim.so")
REPO = "/repo"
DEFAULT_PAVEXC = os.path.join(REPO, "target", "debug", "pavexc")
NIGHTLY_JSON_DIR = "/root/.rustup/toolchains/nightly-x86_64-unknown-linux-gnu/share/doc/rust/json"
DEFAULT_SEED = 20260924
N_SLOTS = 16
N_SIBLING_SLOTS = 4  # slots 0..3 own a second cargo target dir for the sibling project p1
FORMAT_VERSION = 6  # bump to invalidate memoised snapshots / goldens

MASK = (1 << 64) - 1


class HarnessError(Exception):
    pass


def harness_error(msg):
    sys.stdout.flush()
    print(f"HARNESS-ERROR: {msg}", file=sys.stderr)
    print(f"HARNESS-ERROR: {msg}")
    sys.stdout.flush()
    os._exit(2)


def h64(*parts):
    """Stable 64-bit hash of a tuple of printable parts."""
    d = hashlib.sha256("\x1f".join(str(p) for p in parts).encode()).digest()
    return int.from_bytes(d[:8], "little")


class Rng:
    """SplitMix64: the only source of randomness of the harness."""

    def __init__(self, seed):
        self.s = seed & MASK

    def next(self):
        self.s = (self.s + 0x9E3779B97F4A7C15) & MASK
        z = self.s
        z = ((z ^ (z >> 30)) * 0xBF58476D1CE4E5B9) & MASK
        z = ((z ^ (z >> 27)) * 0x94D049BB133111EB) & MASK
        return z ^ (z >> 31)

    def below(self, n):
        return self.next() % n if n > 0 else 0

    def chance(self, num, den):
        return self.below(den) < num

    def choice(self, seq):
        return seq[self.below(len(seq))]

    def weighted(self, pairs):
        """pairs: [(weight, value)]"""
        total = sum(w for w, _ in pairs)
        x = self.below(total)
        for w, v in pairs:
            if x < w:
                return v
            x -= w
        return pairs[-1][1]

    def hash_seed(self):
        # small-ish positive numbers are easier to read in reports; 0 is reserved for goldens
        return 1 + self.below(1_000_000)


def sha256_file(path):
    h = hashlib.sha256()
    with open(path, "rb") as f:
        while True:
            b = f.read(1 << 20)
            if not b:
                break
            h.update(b)
    return h.hexdigest()


def sha256_bytes(b):
    return hashlib.sha256(b).hexdigest()


ANSI = re.compile(r"\x1b\[[0-9;]*[A-Za-z]")


def strip_ansi(s):
    return ANSI.sub("", s)


def load_corpus():
    with open(CORPUS_JSON) as f:
        return json.load(f)


# ---------------------------------------------------------------------------------- fixture


def read_fixture():
    """relative path -> bytes, for the committed fixture sources only."""
    out = {}
    for root, dirs, files in os.walk(FIXTURE):
        dirs[:] = sorted(d for d in dirs if d not in ("target", "sdk", ".git"))
        for fn in sorted(files):
            if fn.endswith(".dot"):
                continue
            p = os.path.join(root, fn)
            if os.path.islink(p):
                continue  # symbolic links are listed in corpus.json ("symlinks") and re-created per project
            out[os.path.relpath(p, FIXTURE)] = open(p, "rb").read()
    return out


def fixture_digest(files):
    h = hashlib.sha256()
    for k in sorted(files):
        h.update(k.encode() + b"\0" + hashlib.sha256(files[k]).digest())
    return h.hexdigest()


ITEM_MARK = "//@item\n"


def render_sources(base, toggles, edits):
    """Pure function: fixture files + set of active edit names -> files.
    Substitutions are applied first (in catalogue order), then moves (in catalogue order)."""
    files = dict(base)
    by_name = {e["name"]: e for e in edits}
    for e in edits:
        if e["name"] not in toggles or e["kind"] != "subst":
            continue
        done = False
        for fn in e["files"]:
            text = files[fn].decode()
            if e["find"] in text:
                files[fn] = text.replace(e["find"], e["replace"], 1).encode()
                done = True
                break
        if not done:
            raise HarnessError(f"edit {e['name']}: pattern not found")
    for e in edits:
        if e["name"] not in toggles or e["kind"] != "move":
            continue
        src = files[e["from"]].decode()
        dst = files[e["to"]].decode()
        i = src.rfind(ITEM_MARK)
        if i <= 0:
            raise HarnessError(f"edit {e['name']}: nothing to move")
        block = src[i:]
        before = src + dst
        files[e["from"]] = src[:i].encode()
        files[e["to"]] = (block + dst).encode()
        assert (files[e["from"]] + files[e["to"]]).decode() == before
    unknown = set(toggles) - set(by_name)
    if unknown:
        raise HarnessError(f"unknown edits {unknown}")
    return files


def state_key(toggles):
    return "+".join(sorted(toggles)) if toggles else "base"


REPO_INPUT_DIRS = ["runtime/pavex", "runtime/pavex_macros", "compiler/pavex_bp_schema", "compiler/persist_if_changed", "compiler/pavexc_attr_parser",
                   "px_workspace_hack"]


def repo_inputs_digest():
    """Digest of the /repo sources the FIXTURE depends on through path dependencies (the pavex runtime and
    the crates it pulls in). They are inputs of every pavexc execution (pavex's docs are part of the
    analysis, its checksum is part of a cache key), so goldens are keyed by them and they must not
    change while a batch runs."""
    h = hashlib.sha256()
    for d in REPO_INPUT_DIRS:
        top = os.path.join(REPO, d)
        for root, dirs, files in os.walk(top):
            dirs[:] = sorted(x for x in dirs if x not in ("target", ".git", "tests", "examples"))
            for fn in sorted(files):
                if not (fn.endswith(".rs") or fn.endswith(".toml")):
                    continue
                p = os.path.join(root, fn)
                try:
                    data = open(p, "rb").read()
                except OSError:
                    continue
                h.update(os.path.relpath(p, REPO).encode() + b"\0" + hashlib.sha256(data).digest())
    return h.hexdigest()
