"""compsim — seeded history generator. plan(property, tier, seed, corpus) is a pure function."""
from cs_util import *  # noqa: F401,F403


def _ex(rng, bp, mode="generate", proj="p0", diag=None, seed=None, out=None, expect_fail=None, bp_locs=None):
    st = {"op": "exec", "proj": proj, "mode": mode, "bp": bp, "hash_seed": rng.hash_seed() if seed is None else seed,
          "diag": diag}
    if out:
        st["out"] = out  # another spelling of the same output directory ($WS = the workspace root)
    if expect_fail:
        st["expect_fail"] = expect_fail
    if bp_locs:
        st["bp_locs"] = bp_locs  # "gone": every source location of the blueprint names a file that does not exist
    return st


# spellings of `<workspace root>/sdk` that `-o` accepts
OUT_SPELLINGS = ["./sdk", "sdk/", "../ws/sdk", "simapp/../sdk", "$WS/sdk", "$WS/../ws/sdk", "./simdep/.././sdk"]


def _diag_gen(rng):
    return rng.weighted([(3, None), (2, "diag.dot")])


def _diag_check(rng):
    # none / the path a previous generate used / a path that does not exist yet
    return rng.weighted([(3, None), (2, "diag.dot"), (3, "diag-new.dot")])


def _seed_outdir(rng, bp, valid, toggles=()):
    state = rng.weighted([(2, "none"), (3, "golden"), (4, "golden_other"), (3, "flipped")])
    step = {"op": "seed_outdir", "proj": "p0", "state": state, "bp": bp, "toggles": sorted(toggles)}
    if state == "golden_other" or bp not in valid:
        others = [b for b in valid if b != bp]
        step["bp"] = rng.choice(others)
        if state == "golden":
            step["state"] = "golden_other"
    if step["state"] == "flipped":
        step["flip"] = {"file": rng.choice(["sdk/src/lib.rs", "sdk/src/lib.rs", "sdk/Cargo.toml"]), "draw": rng.below(1 << 30)}
    return step


# the `par` arm needs the cfg(pavex_verif) scheduler hook in the tree under test
import os as _os
HAS_PAR_HOOK = _os.path.exists("/repo/rustdoc/rustdoc_processor/src/verif_sched.rs")


class Planner:
    def __init__(self, prop, tier, seed, corpus):
        self.prop, self.tier, self.seed = prop, tier, seed
        self.corpus = corpus
        bps = corpus["blueprints"]
        self.valid = sorted(b for b in bps if bps[b]["expect"] == "accept")
        self.invalid = sorted(b for b in bps if bps[b]["expect"] == "reject")
        self.dep_heavy = sorted(b for b in bps if bps[b].get("dep_heavy"))
        self.edits = corpus["edits"]
        self.ui = corpus.get("ui_apps", [])
        self.out = []

    def rng(self, label, i):
        return Rng(h64(self.seed, "compsim", self.prop, self.tier, label, i))

    def add(self, arm, rng, steps, init_cache="warm", init_toggles=None):
        h = {"id": f"h{len(self.out):04d}", "arm": arm, "init_cache": init_cache, "steps": steps}
        if init_toggles:
            h["init_toggles"] = init_toggles
        self.out.append(h)

    def init_cache(self, rng):
        return rng.weighted([(12, "warm"), (2, "toolchain")])

    # ------------------------------------------------------------------ arms
    def sweep(self, i, bp):
        """one blueprint under several hash seeds, cache states and output-directory states"""
        rng = self.rng("sweep", i)
        steps = []
        if rng.chance(2, 3):
            steps.append(_seed_outdir(rng, bp, self.valid))
        steps.append(_ex(rng, bp, diag=_diag_gen(rng)))
        if bp in self.valid:
            d = steps[-1]["diag"]
            steps.append(_ex(rng, bp, diag=d))  # re-run on unchanged inputs
            steps.append(_ex(rng, bp, mode="check", diag=_diag_check(rng)))
        else:
            steps.append(_ex(rng, bp, diag=_diag_gen(rng)))
            if rng.chance(1, 2):
                steps.append(_ex(rng, bp, mode="check"))
        self.add("sweep", rng, steps, self.init_cache(rng))

    def edit(self, i):
        """source edits between runs"""
        rng = self.rng("edit", i)
        bp = rng.choice(self.dep_heavy) if rng.chance(4, 5) else rng.choice(self.valid)
        e = rng.weighted([(9, "move_a_b"), (3, "move_b_c"), (3, "dep_sig"), (2, "dep_lifecycle"), (2, "dep_body"),
                          (2, "dep_feature"), (2, "app_sig"), (2, "app_path"), (4, "dep_include"), (3, "app_version"), (5, "app_dep_feature"),
                          (5, "dep_comment"), (5, "dep_outside_src"), (5, "dep_symlinked")])
        if e in ("dep_outside_src", "dep_symlinked"):
            # only the blueprints that import every route of simdep reach these components
            bp = rng.choice(sorted(b for b in self.corpus["blueprints"] if self.corpus["blueprints"][b].get("dep_routes")))
        steps = []
        if rng.chance(1, 2):
            steps.append(_ex(rng, bp, diag=_diag_gen(rng)))
        steps.append({"op": "edit", "proj": "p0", "edit": e})
        steps.append(_ex(rng, bp, diag=_diag_gen(rng)))
        tail = rng.below(4)
        if tail == 0:
            steps.append(_ex(rng, bp, mode="check", diag=_diag_check(rng)))
        elif tail == 1:
            steps.append({"op": "edit", "proj": "p0", "edit": e})  # toggle back
            steps.append(_ex(rng, bp))
        elif tail == 2:
            e2 = rng.choice([x["name"] for x in self.edits if x["name"] != e and x["name"] not in ("dep_dup_id", "ws_inline_table") and
                             not (x["kind"] == "move" and e.startswith("move"))])
            steps.append({"op": "edit", "proj": "p0", "edit": e2})
            steps.append(_ex(rng, bp))
        self.add("edit", rng, steps, "warm" if rng.chance(5, 6) else "toolchain")

    def touch(self, i):
        rng = self.rng("touch", i)
        bp = rng.choice(self.valid)
        steps = [_ex(rng, bp), {"op": "touch", "proj": "p0", "file": rng.choice(self.corpus["touch_files"])}, _ex(rng, bp),
                 _ex(rng, bp, mode="check")]
        self.add("touch", rng, steps)

    def sibling(self, i):
        """another project copy (own sources, own blueprint) populates the shared cache first"""
        rng = self.rng("sibling", i)
        bp = rng.choice(self.dep_heavy)
        other = rng.choice(self.valid + self.invalid[:4])
        init = {}
        if rng.chance(1, 2):
            init["p1"] = [rng.choice(["move_a_b", "move_b_c", "dep_sig", "dep_body", "dep_include", "app_dep_feature",
                                      "app_dep_feature"])]
        if rng.chance(1, 4):
            init["p0"] = [rng.choice(["move_a_b", "dep_sig"])]
        steps = [_ex(rng, other, proj="p1", diag=_diag_gen(rng))]
        if rng.chance(1, 2):
            steps.append(_ex(rng, bp, proj="p1"))
        steps.append(_ex(rng, bp, proj="p0", diag=_diag_gen(rng)))
        steps.append(_ex(rng, bp, proj="p0", mode="check"))
        if rng.chance(1, 2):
            steps.append(_ex(rng, bp, proj="p1", mode="check" if rng.chance(1, 2) else "generate"))
        self.add("sibling", rng, steps, self.init_cache(rng), init)

    def evict(self, i):
        rng = self.rng("evict", i)
        bp = rng.choice(self.valid + self.invalid)
        steps = []
        if rng.chance(2, 3):
            steps.append(_ex(rng, bp, diag=_diag_gen(rng)))
        what = rng.weighted([(5, "crate"), (3, "access_log"), (2, "unindex"), (1, "toolchain"), (1, "all_third_party")])
        ev = {"op": "evict", "what": what}
        if what in ("crate", "unindex"):
            ev["name"] = rng.choice(self.corpus["evictable_crates"])
        elif what == "toolchain":
            ev["name"] = "alloc"
        steps.append(ev)
        steps.append(_ex(rng, bp, diag=_diag_gen(rng)))
        if bp in self.valid:
            steps.append(_ex(rng, bp, mode="check", diag=_diag_check(rng)))
        self.add("evict", rng, steps)

    def fault(self, i):
        """an execution that hits EIO / ENOSPC / a crash at a seeded write, then follow-ups"""
        rng = self.rng("fault", i)
        bp = rng.choice(self.valid)
        # every kind x phase combination comes round every six fault histories
        kind = ["crash", "eio", "enospc"][i % 3]
        phase = ["cache", "project"][(i // 3 + i) % 2]
        steps = []
        if phase == "cache":
            # make sure the faulted run has something to insert
            steps.append({"op": "evict", "what": "crate", "name": rng.choice(["simdep", "pavex", "http"])})
        else:
            steps.append(_seed_outdir(rng, bp, self.valid))
        steps.append({"op": "fault_exec", "kind": kind, "phase": phase, "k_draw": rng.below(1 << 30),
                      "prefix_draw": rng.below(1 << 20), "exec": _ex(rng, bp, diag=_diag_gen(rng))})
        steps.append(_ex(rng, bp, mode="check"))
        steps.append(_ex(rng, bp))
        steps.append(_ex(rng, bp, mode="check"))
        self.add("fault", rng, steps)

    def readonly(self, i):
        rng = self.rng("readonly", i)
        bp = rng.choice(self.valid)
        other = rng.choice([b for b in self.valid if b != bp])
        steps = [{"op": "seed_outdir", "proj": "p0", "state": "readonly", "bp": other, "toggles": []},
                 _ex(rng, bp), {"op": "unlock_outdir", "proj": "p0"}, _ex(rng, bp, mode="check"), _ex(rng, bp)]
        self.add("readonly", rng, steps)

    def crash_enum(self, i, bp):
        """every crash point of the SDK-persist phase"""
        rng = self.rng("crash_enum", i)
        other = rng.choice([b for b in self.valid if b != bp])
        pre = rng.weighted([(3, "golden_other"), (2, "none")])  # both make the run rewrite every file
        steps = [{"op": "seed_outdir", "proj": "p0", "state": pre, "bp": other if pre == "golden_other" else bp, "toggles": []},
                 {"op": "crash_enum", "prefix_draw": 1 + rng.below(1 << 16), "exec": _ex(rng, bp, diag="diag.dot")}]
        self.add("crash_enum", rng, steps)

    def outpath(self, i):
        """the same output directory under another spelling of the -o argument"""
        rng = self.rng("outpath", i)
        bp = rng.choice(self.valid)
        out = OUT_SPELLINGS[(i + rng.below(2)) % len(OUT_SPELLINGS)]
        steps = []
        if rng.chance(1, 2):
            steps.append(_seed_outdir(rng, bp, self.valid))
        steps.append(_ex(rng, bp, diag=_diag_gen(rng), out=out))
        steps.append(_ex(rng, bp))  # the plain spelling: a re-run on unchanged inputs
        steps.append(_ex(rng, bp, mode="check", out=rng.choice(OUT_SPELLINGS)))
        if self.prop == "C10":
            # ... and from a sub-directory of the workspace: a relative `-o` is relative to the workspace
            # root wherever pavexc is started (no --diagnostics here: that path IS relative to the cwd)
            st = _ex(rng, bp, mode="check", out=rng.choice(["sdk", "./sdk", "sdk/"]))
            st["cwd"] = "simapp"
            steps.append(st)
        if rng.chance(1, 2):
            bad = rng.choice(self.invalid)
            steps.append(_ex(rng, bad, out=rng.choice(OUT_SPELLINGS)))
        self.add("outpath", rng, steps, self.init_cache(rng))

    def symlink_out(self, i):
        """the output directory is reached through a symbolic link (`<project>/wsl -> ws`): first run with
        no SDK on disk, then the very same command again (must touch nothing), then --check"""
        rng = self.rng("symlink_out", i)
        bp = rng.choice(self.valid)
        out = rng.choice(["../wsl/sdk", "$WS/../wsl/sdk"])
        steps = [{"op": "seed_outdir", "proj": "p0", "state": "none", "bp": bp, "toggles": []}]
        for mode in ("generate", "generate", "check"):
            st = _ex(rng, bp, mode=mode, out=out)
            st["ref"] = "first"
            steps.append(st)
        self.add("symlink_out", rng, steps)

    def annot_conflict(self, i):
        """an annotation conflict inside the path dependency (two components, one id): the error is raised
        while the dependency is INDEXED, so it must come back when the docs are served from the cache"""
        rng = self.rng("annot_conflict", i)
        bp = rng.choice(self.valid + self.invalid[:4])
        steps = [{"op": "edit", "proj": "p0", "edit": "dep_dup_id"}, _ex(rng, bp), _ex(rng, bp, diag=_diag_gen(rng))]
        if rng.chance(1, 2):
            steps += [{"op": "edit", "proj": "p0", "edit": "dep_dup_id"}, _ex(rng, bp)]
            if bp in self.valid:
                steps.append(_ex(rng, bp, mode="check"))
        self.add("annot_conflict", rng, steps, self.init_cache(rng))

    def stale_access_log(self, i):
        """history = previous runs of OTHER blueprints of the same project: a blueprint that uses the path
        dependency runs first (the project's access log now lists the dependency), the dependency then gains
        an annotation conflict, and a blueprint that does NOT use the dependency at all runs twice, then --check.
        Its verdict and bytes are a function of the blueprint and the sources it uses — not of what an earlier
        run of another blueprint touched"""
        rng = self.rng("stale_access_log", i)
        user = rng.choice(sorted(b for b in self.corpus["blueprints"] if self.corpus["blueprints"][b].get("dep_routes")))
        loner = "v01_min"
        steps = [_ex(rng, user), {"op": "edit", "proj": "p0", "edit": "dep_dup_id"}, _ex(rng, loner, diag=_diag_gen(rng)), _ex(rng, loner),
                 _ex(rng, loner, mode="check")]
        self.add("stale_access_log", rng, steps, "warm")

    def inline_ws(self, i):
        """the root manifest spells its [workspace] section as one inline table (legal TOML, same content):
        generate, generate again, --check"""
        rng = self.rng("inline_ws", i)
        bp = rng.choice(self.valid)
        steps = [_ex(rng, bp, diag=_diag_gen(rng)), _ex(rng, bp), _ex(rng, bp, mode="check")]
        if rng.chance(1, 2):
            steps.append(_ex(rng, rng.choice(self.invalid)))
        self.add("inline_ws", rng, steps, "warm", {"p0": ["ws_inline_table"]})

    def crlf(self, i):
        """the SDK on disk is up to date except that its source file has CRLF line endings (what an
        autocrlf checkout leaves): a normal run rewrites it, so --check must not pass"""
        rng = self.rng("crlf", i)
        bp = rng.choice(self.valid)
        steps = [{"op": "seed_outdir", "proj": "p0", "state": "crlf", "bp": bp, "toggles": []},
                 _ex(rng, bp, mode="check"), _ex(rng, bp), _ex(rng, bp, mode="check")]
        self.add("crlf", rng, steps)

    def broken_sdk(self, i):
        """an SDK on disk whose manifest no longer parses (merge-conflict markers) and that is not
        registered as a workspace member: the run fails in the persist phase"""
        rng = self.rng("broken_sdk", i)
        bp = rng.choice(self.valid)
        other = rng.choice([b for b in self.valid if b != bp])
        steps = [{"op": "seed_outdir", "proj": "p0", "state": "broken_manifest", "bp": other, "toggles": [],
                  "flip": {"draw": rng.below(1 << 30)}},
                 _ex(rng, bp, diag=_diag_gen(rng), expect_fail="broken-sdk-manifest"),
                 {"op": "seed_outdir", "proj": "p0", "state": "golden", "bp": bp, "toggles": []},
                 _ex(rng, bp, mode="check"), _ex(rng, bp)]
        self.add("broken_sdk", rng, steps)

    def ui_sweep(self, i, apps):
        """upstream UI-test applications: each one under two hash seeds, then --check, from a seeded
        state of its output directory (as committed upstream / golden / one byte flipped)"""
        rng = self.rng("ui", i)
        steps = []
        for a in apps:
            bp = "ui:" + a["pkg"]
            pre = rng.weighted([(4, "upstream"), (3, "flipped"), (1, "golden")])
            if pre != "upstream":
                steps.append({"op": "seed_outdir", "proj": "ui", "state": pre, "bp": bp, "toggles": [],
                              "flip": {"draw": rng.below(1 << 30)}})
            d = rng.weighted([(3, "diag.dot"), (1, None)])
            steps.append(_ex(rng, bp, proj="ui", diag=d))
            second = _ex(rng, bp, proj="ui", diag=d)  # re-run on unchanged inputs, another hash seed
            if HAS_PAR_HOOK and rng.chance(1, 4):
                # ... and, one time in four, with a toolchain crate to re-index next to the application
                # under a seeded thread interleaving (arm `par` on upstream's own programs)
                steps.append({"op": "evict", "what": "toolchain", "name": "alloc"})
                second["par_seed"] = rng.below(1 << 30)
            steps.append(second)
            if a["expect"] == "accept" or rng.chance(1, 3):
                steps.append(_ex(rng, bp, proj="ui", mode="check", diag=d if rng.chance(2, 3) else None))
        self.add("ui_sweep", rng, steps, rng.weighted([(14, "warm"), (1, "toolchain")]))

    def ui_mix(self, n_apps, per_history, rounds, want):
        """`rounds` passes over a seeded selection of `n_apps` UI applications (all of them if n_apps is
        None), biased towards the verdict class `want` the property cares most about"""
        if not self.ui:
            return
        r = self.rng("ui-mix", 0)
        pool = list(self.ui)
        for rd in range(rounds):
            # seeded shuffle
            order = sorted(pool, key=lambda a: h64(self.seed, self.prop, self.tier, "ui-order", rd, a["pkg"]))
            if n_apps is not None:
                pref = [a for a in order if a["expect"] == want]
                rest = [a for a in order if a["expect"] != want]
                k = (2 * n_apps) // 3
                order = pref[:k] + rest[:n_apps - min(k, len(pref))]
            for j in range(0, len(order), per_history):
                self.ui_sweep(1000 * rd + j, order[j:j + per_history])
        del r

    def seeds(self, i, bp):
        """many process-level hash seeds for one blueprint: the output directory holds the golden bytes
        and `--check` (which computes every file and compares) must agree under each seed"""
        rng = self.rng("seeds", i)
        steps = [{"op": "seed_outdir", "proj": "p0", "state": "golden", "bp": bp, "toggles": []}]
        for _ in range(5 if self.tier == "quick" else 12):
            steps.append(_ex(rng, bp, mode="check", diag="diag.dot" if rng.chance(1, 2) else None))
        steps.append(_ex(rng, bp, diag="diag.dot"))
        self.add("seeds", rng, steps)

    def shrink_deps(self, i):
        """the SDK on disk was generated for a blueprint that needs MORE crates than the current one"""
        rng = self.rng("shrink_deps", i)
        light = [b for b in self.valid if b not in self.dep_heavy]
        bp = rng.choice(light)
        other = rng.choice(self.dep_heavy)
        steps = [{"op": "seed_outdir", "proj": "p0", "state": "golden_other", "bp": other, "toggles": []},
                 _ex(rng, bp, mode="check"), _ex(rng, bp, diag=_diag_gen(rng)), _ex(rng, bp, mode="check")]
        self.add("shrink_deps", rng, steps)

    def overlap(self, i):
        """two pavexc processes sharing one cache (or one project): A is parked at a seeded write, B runs
        from start to end, A goes on"""
        rng = self.rng("overlap", i)
        bp = rng.choice(self.dep_heavy)
        init = {}
        steps = []
        if i % 3 != 2:
            # cache phase: B works in the sibling project (its own sources, possibly another state of the
            # same path dependency), both processes insert rows for the crates evicted here
            other = rng.choice(self.valid)
            if rng.chance(1, 2):
                init["p1"] = [rng.choice(["move_a_b", "dep_sig", "dep_body", "app_dep_feature"])]
            steps.append({"op": "evict", "what": "crate", "name": rng.choice(["simdep", "pavex", "http"])})
            steps.append({"op": "overlap_exec", "phase": "cache", "k_draw": rng.below(1 << 30),
                          "exec": _ex(rng, bp, diag=_diag_gen(rng)), "peer": _ex(rng, other, proj="p1")})
            steps.append(_ex(rng, other, proj="p1", mode="check"))
        else:
            # project phase: the SAME blueprint generated twice into the same project at once
            steps.append(_seed_outdir(rng, bp, self.valid))
            steps.append({"op": "overlap_exec", "phase": "project", "k_draw": rng.below(1 << 30),
                          "exec": _ex(rng, bp, diag="diag.dot"), "peer": _ex(rng, bp, diag="diag.dot")})
        steps.append(_ex(rng, bp, mode="check", diag="diag.dot" if i % 3 == 2 else None))
        steps.append(_ex(rng, bp))
        self.add("overlap", rng, steps, "warm", init)

    def save_during_run(self, i):
        """a source file of the path dependency is SAVED WHILE pavexc RUNS (an editor, a formatter, `git
        checkout`): the process is parked by the shim at a seeded cache write, the edit is applied, the
        process goes on. What that run itself produces is not judged (its inputs changed under it); every
        LATER run on the then unchanged inputs must produce the golden bytes of the edited sources."""
        rng = self.rng("save_during_run", i)
        bp = rng.choice(sorted(b for b in self.corpus["blueprints"] if self.corpus["blueprints"][b].get("dep_routes")))
        e = rng.choice(["dep_sig", "dep_outside_src", "dep_symlinked", "move_a_b"])
        steps = [{"op": "evict", "what": "crate", "name": "simdep"}, {"op": "evict", "what": "crate", "name": "pavex"}]
        a = _ex(rng, bp, expect_fail="inputs-changed-mid-run")
        steps.append({"op": "overlap_exec", "phase": "cache", "k_draw": rng.below(1 << 30), "exec": a, "peer_edit": e})
        steps.append(_ex(rng, bp, diag=_diag_gen(rng)))
        steps.append(_ex(rng, bp, mode="check"))
        self.add("save_during_run", rng, steps, "warm")

    def moved_blueprint(self, i, bp=None):
        """a blueprint serialised on another checkout: its source locations name files that are not
        there, so every diagnostic that wants a snippet meets an I/O error"""
        rng = self.rng("moved", i)
        # accepted blueprints (warnings only: the unreadable file is the ONLY reason to fail) and
        # rejected ones take turns
        if bp is None:
            bp = rng.choice(self.valid) if i % 2 == 0 else rng.choice(self.invalid)
        steps = []
        if rng.chance(1, 2):
            steps.append(_seed_outdir(rng, bp, self.valid))
        steps.append(_ex(rng, bp, diag=_diag_gen(rng), bp_locs="gone"))
        steps.append(_ex(rng, bp, mode="check", bp_locs="gone"))
        if bp in self.valid:
            steps.append(_ex(rng, bp, diag=_diag_gen(rng)))
        self.add("moved_blueprint", rng, steps)

    def bad_diag(self, i):
        """--diagnostics names a path that cannot be written (its directory does not exist, or it is a
        directory) while the SDK on disk is out of date: the run fails and must leave the SDK alone"""
        rng = self.rng("bad_diag", i)
        bp = rng.choice(self.valid)
        other = rng.choice([b for b in self.valid if b != bp])
        d = rng.choice(["no-such-dir/diag.dot", "simapp/src", "no-such-dir/deeper/diag.dot"])
        pre = rng.weighted([(4, "golden_other"), (2, "flipped")])
        step0 = {"op": "seed_outdir", "proj": "p0", "state": pre, "bp": other if pre == "golden_other" else bp, "toggles": []}
        if pre == "flipped":
            step0["flip"] = {"file": "sdk/src/lib.rs", "draw": rng.below(1 << 30)}
        steps = [step0, _ex(rng, bp, diag=d, expect_fail="unwritable-diagnostics"),
                 _ex(rng, bp, mode="check", diag=d, expect_fail="unwritable-diagnostics"),
                 _ex(rng, bp, diag="diag.dot"), _ex(rng, bp, mode="check", diag="diag.dot")]
        self.add("bad_diag", rng, steps)

    def par(self, i):
        if not HAS_PAR_HOOK:
            return
        """Thread interleavings INSIDE one pavexc process: the parallel sections of the documentation
        pipeline (cache look-ups, indexing) run under the deterministic scheduler of the verification
        build, one `par_seed` = one interleaving. The batch of crates indexed together is made
        non-trivial by evicting a toolchain crate (and sometimes a third-party one); in C09 runs the
        path dependency usually carries an annotation conflict, so that one task of the section pushes
        error diagnostics while the others are being indexed."""
        rng = self.rng("par", i)
        c09 = self.prop == "C09"
        bp = rng.choice(self.valid + self.invalid[:6]) if c09 else rng.choice(self.dep_heavy if rng.chance(1, 2) else self.valid)
        steps = []
        conflict = c09 and rng.chance(3, 4)
        if conflict:
            steps.append({"op": "edit", "proj": "p0", "edit": "dep_dup_id"})
        for _ in range(2 if rng.chance(2, 3) else 1):
            steps.append({"op": "evict", "what": "toolchain", "name": rng.weighted([(6, "alloc"), (1, "core"), (1, "std")])})
            if rng.chance(1, 3):
                steps.append({"op": "evict", "what": "crate", "name": rng.choice(self.corpus["evictable_crates"])})
            st = _ex(rng, bp, diag=_diag_gen(rng))
            st["par_seed"] = rng.below(1 << 30)
            steps.append(st)
        if not conflict and bp in self.valid:
            steps.append(_ex(rng, bp, mode="check"))
        self.add("par", rng, steps)

    def empty(self, i):
        rng = self.rng("empty", i)
        bp = rng.choice(self.valid)
        self.add("empty_cache", rng, [_ex(rng, bp, diag="diag.dot"), _ex(rng, bp, mode="check", diag="diag.dot")], "empty")

    # ------------------------------------------------------------------ mixes
    def build(self):
        q = self.tier == "quick"
        if self.prop == "C10":
            for i, bp in enumerate(self.valid):
                self.sweep(i, bp)
            r = self.rng("mix", 0)
            for i in range(4 if q else 17 * 4):
                self.sweep(100 + i, self.invalid[(i * 5 + r.below(3)) % len(self.invalid)])
            for i in range(22 if q else 260):
                self.edit(i)
            for i in range(3 if q else 24):
                self.touch(i)
            for i in range(5 if q else 60):
                self.sibling(i)
            for i in range(4 if q else 50):
                self.evict(i)
            for i in range(3 if q else 30):
                self.save_during_run(i)
            for i in range(2 if q else 12):
                self.stale_access_log(i)
            for i in range(6 if q else 72):
                self.fault(i)
            for i in range(1 if q else 4):
                self.readonly(i)
            enum_bps = [self.valid[r.below(len(self.valid))] for _ in range(2 if q else 8)]
            for i, bp in enumerate(enum_bps):
                self.crash_enum(i, bp)
            for i in range(1 if q else 4):
                self.empty(i)
            for i in range(3 if q else 28):
                self.outpath(i)
            for i, bp in enumerate(self.valid):
                self.seeds(i, bp)
            for i in range(2 if q else 12):
                self.shrink_deps(i)
            for i in range(4 if q else 40):
                self.overlap(i)
            for i in range(3 if q else 40):
                self.par(i)
            for i in range(2 if q else 12):
                self.symlink_out(i)
            for i in range(2 if q else 16):
                self.annot_conflict(i)
            for i in range(2 if q else 12):
                self.crlf(i)
            for i in range(1 if q else 8):
                self.inline_ws(i)
            self.ui_mix(24 if q else None, 3, 1 if q else 3, "accept")
            if not q:
                for rep in range(1, 9):
                    for i, bp in enumerate(self.valid):
                        self.sweep(1000 * rep + i, bp)
        else:  # C09: the program dimension is the whole corpus, crossed with seeds / cache / out-dir states
            for i, bp in enumerate(self.invalid):
                self.sweep(i, bp)
            for i, bp in enumerate(self.valid):
                self.sweep(100 + i, bp)
            r = self.rng("mix", 0)
            for i in range(6 if q else 17 * 14):
                self.sweep(200 + i, self.invalid[(i * 3 + r.below(5)) % len(self.invalid)])
            for i in range(5 if q else 120):
                self.edit(i)
            for i in range(4 if q else 80):
                self.sibling(i)
            for i in range(5 if q else 100):
                self.evict(i)
            for i in range(3 if q else 80):
                self.fault(i)
            for i in range(1 if q else 6):
                self.readonly(i)
            for i in range(1 if q else 6):
                self.crash_enum(i, self.valid[r.below(len(self.valid))])
            for i in range(0 if q else 4):
                self.empty(i)
            for i in range(3 if q else 28):
                self.outpath(100 + i)
            for i in range(2 if q else 16):
                self.broken_sdk(i)
            # which diagnostics want a snippet depends on how the components were registered: every
            # accepted blueprint once, plus a few rejected ones
            for i, bp in enumerate(self.valid):
                self.moved_blueprint(500 + i, bp)
            for i in range(2 if q else 30):
                self.moved_blueprint(2 * i + 1)
            for i in range(2 if q else 16):
                self.bad_diag(i)
            for i in range(1 if q else 6):
                self.shrink_deps(100 + i)
            for i in range(3 if q else 30):
                self.overlap(100 + i)
            for i in range(10 if q else 80):
                self.par(100 + i)
            for i in range(3 if q else 30):
                self.annot_conflict(100 + i)
            for i in range(1 if q else 8):
                self.symlink_out(100 + i)
            for i in range(2 if q else 12):
                self.inline_ws(100 + i)
            self.ui_mix(24 if q else None, 3, 1 if q else 3, "reject")
            if not q:
                for rep in range(1, 8):
                    for i, bp in enumerate(self.valid):
                        self.sweep(1000 * rep + 100 + i, bp)
        return self.out


def plan(prop, tier, seed, corpus):
    return Planner(prop, tier, seed, corpus).build()


# ---------------------------------------------------------------------------------- derived facts


def needed_goldens(histories):
    """(bp, toggles tuple) pairs whose golden the oracles (or seed_outdir) will look up."""
    need = set()
    for h in histories:
        tog = {"p0": set(h.get("init_toggles", {}).get("p0", ())), "p1": set(h.get("init_toggles", {}).get("p1", ())),
               "ui": set()}
        for s in h["steps"]:
            if s["op"] == "edit":
                tog[s.get("proj", "p0")] ^= {s["edit"]}
            elif s["op"] == "seed_outdir" and s["state"] != "none":
                need.add((s["bp"], tuple(sorted(s.get("toggles", ())))))
            for ex in ([s] if s["op"] == "exec" else [s.get("exec"), s.get("peer")]):
                if ex:
                    need.add((ex["bp"], tuple(sorted(tog[ex.get("proj", "p0")]))))
    return sorted(need)


def estimate_cost(h):
    c = 2.0 + {"warm": 0, "nodep": 2, "toolchain": 14, "empty": 40}[h.get("init_cache", "warm")]
    for s in h["steps"]:
        if s["op"] == "exec":
            c += 4.0
        elif s["op"] == "fault_exec":
            c += 10.0
        elif s["op"] in ("overlap_exec", "overlap_at"):
            c += 16.0
        elif s["op"] == "crash_enum":
            c += 4.0 + 9 * 11.0
        elif s["op"] == "evict":
            c += 6.0 if s["what"] in ("crate", "unindex") else (25.0 if s["what"] == "all_third_party" else 3.0)
        elif s["op"] == "edit":
            c += 2.0
    return c


def uses_sibling(h):
    for s in h["steps"]:
        if s.get("proj") == "p1" or (s.get("exec") or {}).get("proj") == "p1" or (s.get("peer") or {}).get("proj") == "p1":
            return True
    return False


def uses_ui(h):
    for s in h["steps"]:
        if s.get("proj") == "ui" or (s.get("exec") or {}).get("proj") == "ui":
            return True
    return False


def assign_slots(histories, n_slots, n_sibling_slots, n_ui_slots=8):
    """Deterministic longest-processing-time assignment. Returns {slot: [history, ...]}."""
    load = [0.0] * n_slots
    queues = {i: [] for i in range(n_slots)}
    order = sorted(histories, key=lambda h: (-estimate_cost(h), h["id"]))
    for h in order:
        if uses_sibling(h):
            cands = range(min(n_sibling_slots, n_slots))
        elif uses_ui(h):
            cands = range(min(n_ui_slots, n_slots))
        else:
            cands = range(n_slots)
        best = min(cands, key=lambda s: (load[s], s))
        queues[best].append(h)
        load[best] += estimate_cost(h)
    return queues
