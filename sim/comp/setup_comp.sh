#!/bin/bash
# One-time (idempotent) preparation for the compsim checks (C09, C10). Offline.
#  1. core/alloc/std rustdoc JSON for the installed nightly toolchain (pavexc looks for them in
#     <toolchain>/share/doc/rust/json/); regenerated from rust-src when missing (~30 s)
#  2. verifshim.so, pavexc, fixture workspace + bpdump, warm cache snapshots, slot target dirs, goldens
#     (delegated to `compsim.py setup`)
set -eu
export CARGO_NET_OFFLINE=true
TC=/root/.rustup/toolchains/nightly-x86_64-unknown-linux-gnu
JSON_DIR=$TC/share/doc/rust/json
WORK=/verif/work
mkdir -p "$WORK"
need=0
for n in core alloc std; do [ -s "$JSON_DIR/$n.json" ] || need=1; done
if [ "$need" = 1 ]; then
  echo "setup_comp: generating core/alloc/std JSON docs ..."
  SCRATCH=$WORK/stdjson-target
  rm -rf "$SCRATCH"
  ( cd "$TC/lib/rustlib/src/rust/library" && \
    RUSTDOCFLAGS="-Zunstable-options --output-format json" CARGO_TARGET_DIR="$SCRATCH" \
    cargo +nightly doc --locked --offline -p core -p alloc -p std --no-deps )
  mkdir -p "$JSON_DIR"
  for n in core alloc std; do
    cp "$SCRATCH/doc/$n.json" "$JSON_DIR/$n.json.tmp"
    mv "$JSON_DIR/$n.json.tmp" "$JSON_DIR/$n.json"
  done
  rm -rf "$SCRATCH"
fi
SHIM=$WORK/verifshim.so
SRC=/verif/sim/comp/verifshim.c
if [ ! -e "$SHIM" ] || [ "$SRC" -nt "$SHIM" ]; then
  gcc -O2 -fPIC -shared -Wall -o "$SHIM.tmp" "$SRC" -ldl
  mv "$SHIM.tmp" "$SHIM"
fi
exec python3 /verif/sim/comp/compsim.py setup
