#!/usr/bin/env python3
"""compsim — process-level deterministic simulation of `pavexc generate` histories (C09, C10).

    compsim.py setup                      one-time slow work (shim, pavexc, fixture, cache snapshots, goldens)
    compsim.py check  <C09|C10> <quick|thorough>
    compsim.py replay <C09|C10> <replay.json>
    compsim.py plan   <C09|C10> <quick|thorough>      print the planned histories (pure function of VERIF_SEED)

Environment: VERIF_SEED (default 20260924), COMPSIM_PAVEXC (binary to test instead of building /repo),
COMPSIM_WORKERS (default 16), COMPSIM_KEEP=1 (keep result dump under /verif/work/comp/last-<ID>.json).
Exit codes: 0 held, 1 VIOLATION printed, 2 HARNESS-ERROR.
"""
import copy
import fcntl
import json
import os
import subprocess
import sys
import threading
import time
from concurrent.futures import ThreadPoolExecutor

sys.path.insert(0, os.path.dirname(os.path.abspath(__file__)))
from cs_util import *  # noqa: E402,F401,F403
import cs_world as W  # noqa: E402
import cs_oracle as O  # noqa: E402
import cs_plan as P  # noqa: E402
import cs_ui as UI  # noqa: E402

_load_corpus_plain = load_corpus


def load_corpus():  # noqa: F811
    """The committed catalogue plus the list of upstream UI applications found in /repo."""
    c = _load_corpus_plain()
    c["ui_apps"] = UI.list_apps()
    return c


WORKERS = max(1, min(N_SLOTS, int(os.environ.get("COMPSIM_WORKERS", str(N_SLOTS)))))
WARM_BPS = ["v02_flat", "v03_nested", "v05_domains", "v06_dep", "v08_explicit", "v11_flat_permuted"]
T0 = time.time()


def log(msg):
    print(f"[compsim {time.time() - T0:6.1f}s] {msg}", file=sys.stderr, flush=True)


def run_cmd(argv, cwd=None, env=None, what=None):
    r = subprocess.run(argv, cwd=cwd, env=env, capture_output=True, text=True)
    if r.returncode != 0:
        tail = (r.stderr or r.stdout)[-1500:]
        harness_error(f"{what or ' '.join(argv)} failed (exit {r.returncode}): {tail}")
    return r


# ---------------------------------------------------------------------------------- build


def build_shim():
    if not os.path.exists(SHIM_SO) or os.path.getmtime(SHIM_SO) < os.path.getmtime(SHIM_SRC):
        os.makedirs(os.path.dirname(SHIM_SO), exist_ok=True)
        tmp = SHIM_SO + f".{os.getpid()}.tmp"
        run_cmd(["gcc", "-O2", "-fPIC", "-shared", "-Wall", "-o", tmp, SHIM_SRC, "-ldl"], what="building verifshim.so")
        os.replace(tmp, SHIM_SO)


def build_pavexc():
    custom = os.environ.get("COMPSIM_PAVEXC")
    if custom:
        if not os.path.exists(custom):
            harness_error(f"COMPSIM_PAVEXC={custom} does not exist")
        return custom
    env = dict(os.environ, CARGO_NET_OFFLINE="true")
    r = subprocess.run(["cargo", "build", "--offline", "-p", "pavexc_cli"], cwd=REPO, env=env, capture_output=True, text=True)
    if r.returncode != 0:
        harness_error("pavexc does not build from /repo: " + r.stderr[-1500:])
    return DEFAULT_PAVEXC


def build_pavexc_verif():
    """The same sources with `--cfg pavex_verif`: the parallel sections of the documentation pipeline
    run under the deterministic scheduler of rustdoc_processor::verif_sched when VERIF_PAR_SEED is set
    (arm `par`). Own target dir, so the shipped build in /repo/target is never invalidated."""
    custom = os.environ.get("COMPSIM_PAVEXC_VERIF")
    if custom:
        return custom
    if not os.path.exists(os.path.join(REPO, "rustdoc/rustdoc_processor/src/verif_sched.rs")):
        return None
    tdir = os.path.join(WORK, "pavexc-verif-target")
    env = dict(os.environ, CARGO_NET_OFFLINE="true", RUSTFLAGS="--cfg pavex_verif", CARGO_TARGET_DIR=tdir)
    r = subprocess.run(["cargo", "build", "--offline", "-p", "pavexc_cli"], cwd=REPO, env=env, capture_output=True, text=True)
    if r.returncode != 0:
        harness_error("pavexc does not build from /repo with --cfg pavex_verif: " + r.stderr[-1500:])
    return os.path.join(tdir, "debug", "pavexc")


def check_std_docs():
    for n in ("core", "alloc", "std"):
        if not os.path.exists(os.path.join(NIGHTLY_JSON_DIR, n + ".json")):
            harness_error(f"{NIGHTLY_JSON_DIR}/{n}.json is missing: run /verif/sim/comp/setup_comp.sh")


def build_bpdump(base_files):
    """The fixture is built in a scratch copy (never inside /verif/fixtures) against /repo's runtime crates."""
    bdir = os.path.join(WORK, "fixture-build")
    ws = os.path.join(bdir, "ws")
    lock = open(os.path.join(WORK, "fixture-build.lock"), "w")
    fcntl.flock(lock, fcntl.LOCK_EX)
    try:
        for rel, data in base_files.items():
            p = os.path.join(ws, rel)
            if rel == "Cargo.lock" and os.path.exists(p):
                continue
            if os.path.exists(p) and open(p, "rb").read() == data:
                continue
            os.makedirs(os.path.dirname(p), exist_ok=True)
            with open(p, "wb") as f:
                f.write(data)
        for rel, target in sorted(load_corpus().get("symlinks", {}).items()):
            p = os.path.join(ws, rel)
            if not os.path.lexists(p):
                os.makedirs(os.path.dirname(p), exist_ok=True)
                os.symlink(target, p)
        env = dict(os.environ, CARGO_NET_OFFLINE="true", CARGO_TARGET_DIR=os.path.join(WORK, "fixture-target"))
        r = subprocess.run(["cargo", "build", "--offline", "-p", "simapp", "--bin", "bpdump"], cwd=ws, env=env,
                           capture_output=True, text=True)
        if r.returncode != 0:
            harness_error("the fixture workspace does not build against /repo: " + r.stderr[-1500:])
        return os.path.join(WORK, "fixture-target", "debug", "bpdump")
    finally:
        fcntl.flock(lock, fcntl.LOCK_UN)
        lock.close()


def dump_blueprints(bpdump, dest):
    tmp = dest + f".{os.getpid()}.tmp"
    W.rmtree(tmp)
    # the blueprint records file paths relative to the workspace root: run from there
    r = subprocess.run([bpdump, tmp], cwd=os.path.join(WORK, "fixture-build", "ws"), capture_output=True, text=True)
    if r.returncode != 0:
        harness_error("bpdump failed: " + r.stderr[-800:])
    names = r.stdout.split()
    if os.path.isdir(dest):
        W.rmtree(tmp)
    else:
        os.rename(tmp, dest)
    return names


# ---------------------------------------------------------------------------------- prepared state


class Ctx:
    pass


def prepare(need_goldens=(), allow_slow=True):
    """Build everything a batch needs; memoised per (pavexc binary, fixture, format)."""
    os.makedirs(os.path.join(WORK, "slots"), exist_ok=True)
    check_std_docs()
    build_shim()
    pavexc = build_pavexc()
    pavexc_verif = build_pavexc_verif()
    corpus = load_corpus()
    base = read_fixture()
    bpdump = build_bpdump(base)
    binsha = sha256_file(pavexc)
    inputs = repo_inputs_digest()
    uidig = UI.ui_digest() if corpus["ui_apps"] else "-"
    key = sha256_bytes(f"{binsha}|{fixture_digest(base)}|{sha256_file(SHIM_SRC)}|{FORMAT_VERSION}|{inputs}|{uidig}".encode())[:16]
    state_dir = os.path.join(WORK, "state", key)
    os.makedirs(state_dir, exist_ok=True)
    ctx = Ctx()
    ctx.pavexc, ctx.binsha, ctx.key, ctx.state_dir, ctx.corpus, ctx.base = pavexc, binsha, key, state_dir, corpus, base
    ctx.inputs = inputs
    ctx.uidig = uidig
    lock = open(os.path.join(WORK, "state", key + ".lock"), "w")
    fcntl.flock(lock, fcntl.LOCK_EX)
    try:
        names = dump_blueprints(bpdump, os.path.join(state_dir, "bps"))
        missing = sorted(set(corpus["blueprints"]) - set(names))
        if missing:
            harness_error(f"bpdump did not produce {missing}")
        if corpus["ui_apps"]:
            UI.build_template(state_dir, corpus["ui_apps"], log)
        # the RON must be the same as the memoised one (same tree => same schema)
        ctx.world = W.World(pavexc, state_dir, corpus, base)
        ctx.world.pavexc_verif = pavexc_verif
        ctx.world.compute_golden = lambda bp, tog: compute_goldens(ctx, [(bp, tuple(tog))])
        if not os.path.exists(os.path.join(state_dir, "snapshots.ok")):
            log(f"building cache snapshots for pavexc {binsha[:12]} (state {key}) ...")
            build_snapshots(ctx)
        ensure_slot_targets(ctx)
        todo = [(bp, tog) for bp, tog in need_goldens if ctx.world.golden(bp, list(tog)) is None]
        if todo:
            log(f"computing {len(todo)} golden(s) in the clean world ...")
            compute_goldens(ctx, todo)
        gc_states(key)
    finally:
        fcntl.flock(lock, fcntl.LOCK_UN)
        lock.close()
    return ctx


def gc_states(current):
    """Keep the disk bounded: at most 3 memoised states (each ≈ 250 MB)."""
    root = os.path.join(WORK, "state")
    dirs = [d for d in os.listdir(root) if os.path.isdir(os.path.join(root, d)) and d != current]
    dirs.sort(key=lambda d: os.path.getmtime(os.path.join(root, d)), reverse=True)
    for d in dirs[2:]:
        W.rmtree(os.path.join(root, d))
        try:
            os.unlink(os.path.join(root, d + ".lock"))
        except OSError:
            pass


def build_snapshots(ctx):
    """slot 00 / p0: empty HOME -> run a fixed list of blueprints with hash seed 0 -> home-warm;
    the same DB minus every third-party row and the access log -> home-tc (toolchain crates only);
    the same DB minus the rows of the path dependency `simdep` and the access log -> home-nodep: the
    CLEAN WORLD of the golden runs. It holds only rows whose sources no history can change (toolchain
    crates, registry crates, /repo/runtime/pavex), so nothing in it can be stale with respect to a
    source edit; the stricter toolchain-only and empty worlds are explored as ordinary histories
    (init_cache toolchain / empty) and compared against these goldens like everything else."""
    slot = W.Slot(0)
    slot.acquire()
    try:
        # every blueprint is generated into a FRESH output directory: the snapshot run only fills the
        # cache, and a defect that shows when one SDK replaces another must not break the set-up
        # (it is for the histories of the batch to find)
        steps = []
        for bp in WARM_BPS:
            steps.append({"op": "seed_outdir", "proj": "p0", "state": "none", "bp": bp, "toggles": []})
            steps.append({"op": "exec", "proj": "p0", "mode": "generate", "bp": bp, "hash_seed": 0, "diag": None, "timeout": 1800})
        h = {"id": "snapshot", "init_cache": "empty", "golden": True, "steps": steps}
        if ctx.corpus["ui_apps"]:
            # the UI workspace enables another feature set of `pavex`: have its docs in the warm caches too
            h["steps"].append({"op": "exec", "proj": "ui", "mode": "generate", "bp": "ui:" + ctx.corpus["ui_apps"][0]["pkg"],
                               "hash_seed": 0, "diag": None, "timeout": 1800})
        run = W.HistoryRun(ctx.world, slot, h).run()
        for ex in run["execs"]:
            if ex["exit"] != 0:
                harness_error(f"snapshot run of {ex['step']['bp']} exited {ex['exit']}: {ex['stderr'][-800:]}")
        for name in ("home-warm", "home-tc", "home-nodep"):
            W.rmtree(os.path.join(ctx.state_dir, name))
        W.cp_a(slot.home, os.path.join(ctx.state_dir, "home-warm"))
        W.cp_a(slot.home, os.path.join(ctx.state_dir, "home-tc"))
        W.cp_a(slot.home, os.path.join(ctx.state_dir, "home-nodep"))
        nodep = os.path.join(ctx.state_dir, "home-nodep")
        W.evict(nodep, "crate", "simdep")
        W.evict(nodep, "access_log")
        tc = os.path.join(ctx.state_dir, "home-tc")
        W.evict(tc, "all_third_party")
        import sqlite3
        c = sqlite3.connect(W.cache_db(tc))
        c.execute("VACUUM")
        c.commit()
        c.execute("PRAGMA wal_checkpoint(TRUNCATE)")
        c.close()
        wdb = sqlite3.connect(W.cache_db(os.path.join(ctx.state_dir, "home-warm")))
        wdb.execute("PRAGMA wal_checkpoint(TRUNCATE)")
        wdb.close()
        open(os.path.join(ctx.state_dir, "snapshots.ok"), "w").write(json.dumps(
            {"execs": [[e["step"]["bp"], e["wall_s"]] for e in run["execs"]]}))
        log("snapshots ready: " + ", ".join(f"{e['step']['bp']} {e['wall_s']}s" for e in run["execs"]))
    finally:
        slot.release()


def ensure_slot_targets(ctx):
    """Every slot owns a warm cargo target dir (≈1.1 GB). Slot 00's is warmed by the snapshot run
    (or by a throw-away run); the others start as copies of it."""
    src = W.Slot(0).target("p0")
    if not os.path.isdir(os.path.join(src, "debug", "deps")):
        slot = W.Slot(0)
        slot.acquire()
        try:
            log("warming the cargo target dir of slot 00 ...")
            h = {"id": "warm-target", "init_cache": "warm", "golden": True,
                 "steps": [{"op": "exec", "proj": "p0", "mode": "generate", "bp": "v02_flat", "hash_seed": 0, "diag": None,
                            "timeout": 1800}]}
            W.HistoryRun(ctx.world, slot, h).run()
        finally:
            slot.release()
    todo = []
    for i in range(N_SLOTS):
        s = W.Slot(i)
        for p in (["p0", "p1"] if i < N_SIBLING_SLOTS else ["p0"]):
            if not os.path.isdir(os.path.join(s.target(p), "debug", "deps")):
                todo.append((s, p))
    if todo:
        log(f"copying the warm cargo target dir to {len(todo)} slot target(s) ...")

        def one(sp):
            s, p = sp
            s.acquire()
            try:
                if not os.path.isdir(os.path.join(s.target(p), "debug", "deps")):
                    W.rmtree(s.target(p))
                    tmp = s.target(p) + ".tmp"
                    W.rmtree(tmp)
                    W.cp_a(src, tmp)
                    os.rename(tmp, s.target(p))
            finally:
                s.release()

        with ThreadPoolExecutor(4) as ex:
            list(ex.map(one, todo))
    if ctx.corpus["ui_apps"]:
        ensure_ui_targets(ctx)


def ensure_ui_targets(ctx):
    """Slots 0..N_UI_SLOTS-1 own a cargo target dir for the UI workspace. The path dependencies of
    that workspace live under the slot (<slot>/ui/R/runtime/pavex is a symlink into /repo), so cargo
    builds them once per slot: every slot is warmed here, by one throw-away execution, each time the
    memoised state changes; no measured execution pays for it."""
    n = min(UI.N_UI_SLOTS, WORKERS)
    src = W.Slot(0).target("ui")
    first = ctx.corpus["ui_apps"][0]["pkg"]

    def warm(i):
        s = W.Slot(i)
        marker = os.path.join(s.target("ui"), ".warm")
        if os.path.exists(marker) and open(marker).read() == ctx.key:
            return
        s.acquire()
        try:
            if i != 0 and not os.path.isdir(os.path.join(s.target("ui"), "debug")) and os.path.isdir(os.path.join(src, "debug")):
                tmp = s.target("ui") + ".tmp"
                W.rmtree(tmp)
                W.cp_a(src, tmp)
                W.rmtree(s.target("ui"))
                os.rename(tmp, s.target("ui"))
            h = {"id": "warm-ui-target", "init_cache": "warm", "golden": True,
                 "steps": [{"op": "exec", "proj": "ui", "mode": "generate", "bp": "ui:" + first, "hash_seed": 0, "diag": None,
                            "timeout": 1800}]}
            run = W.HistoryRun(ctx.world, s, h).run()
            if run["execs"][0]["timed_out"]:
                harness_error("warming the UI target dir timed out")
            with open(marker, "w") as f:
                f.write(ctx.key)
        finally:
            s.release()

    todo = [i for i in range(n) if not (os.path.exists(os.path.join(W.Slot(i).target("ui"), ".warm")) and
                                        open(os.path.join(W.Slot(i).target("ui"), ".warm")).read() == ctx.key)]
    if not todo:
        return
    log(f"warming the UI cargo target dir of {len(todo)} slot(s) ...")
    if 0 in todo:
        warm(0)
        todo.remove(0)
    with ThreadPoolExecutor(8) as ex:
        list(ex.map(warm, todo))


def golden_history(bp, tog):
    proj = "ui" if bp.startswith("ui:") else "p0"
    return {"id": f"golden:{bp}:{state_key(tog)}", "arm": "golden", "golden": True, "init_cache": "nodep",
            "init_toggles": {"p0": list(tog)},
            "steps": [{"op": "exec", "proj": proj, "mode": "generate", "bp": bp, "hash_seed": 0, "diag": "diag.dot",
                       "timeout": 3 * W.DEFAULT_TIMEOUT}]}


def store_golden(ctx, slot, bp, tog, ex):
    d = ctx.world.golden_path(bp, list(tog))
    tmp = d + f".{os.getpid()}.tmp"
    W.rmtree(tmp)
    os.makedirs(tmp)
    files = {}
    # A golden run that does not terminate gives no reference verdict either (exit "timeout"); the
    # ordinary histories of the same blueprint report it as a C09 `terminates` violation.
    # An abnormal end (panic, signal) of the clean-world run is recorded as it is: it gives no reference
    # verdict, and the same abnormal end shows up in ordinary histories as a C09 violation.
    if ex["exit"] == 0:
        real = W.HistoryRun(ctx.world, slot, {"id": "-", "steps": []}).layout(ex["proj"], bp)["real"]
        for rel in ("sdk/Cargo.toml", "sdk/src/lib.rs", "Cargo.toml", "diag.dot"):
            data = open(real(rel), "rb").read()
            files[rel] = sha256_bytes(data)
            with open(os.path.join(tmp, rel.replace("/", "__")), "wb") as f:
                f.write(data)
    meta = {"bp": bp, "toggles": list(tog), "exit": "timeout" if ex["timed_out"] else (ex["exit"] if ex["signal"] is None else -ex["signal"]), "files": files, "n_errors": ex["n_errors"],
            "wall_s": ex["wall_s"], "stderr_tail": ex["stderr"][-1500:]}
    with open(os.path.join(tmp, "golden.json"), "w") as f:
        json.dump(meta, f, indent=1)
    W.rmtree(d)
    os.makedirs(os.path.dirname(d), exist_ok=True)
    os.rename(tmp, d)


def compute_goldens(ctx, todo):
    queue = list(todo)
    qlock = threading.Lock()
    errors = []

    def worker(i):
        slot = W.Slot(i)
        while True:
            with qlock:
                if not queue or errors:
                    return
                bp, tog = queue.pop(0)
            slot.acquire()
            try:
                run = W.HistoryRun(ctx.world, slot, golden_history(bp, tog)).run()
                store_golden(ctx, slot, bp, tog, run["execs"][0])
            except HarnessError as e:
                errors.append(str(e))
            finally:
                slot.release()

    with ThreadPoolExecutor(WORKERS) as ex:
        list(ex.map(worker, range(WORKERS)))
    if errors:
        harness_error(errors[0])
    ctx.world.gold_mem.clear()


# ---------------------------------------------------------------------------------- batch


def run_batch(ctx, histories, label="batch"):
    """Static LPT assignment of histories to slots; one worker per slot. Returns {history id: run}."""
    queues = P.assign_slots(histories, WORKERS, min(N_SIBLING_SLOTS, WORKERS), min(UI.N_UI_SLOTS, WORKERS))
    results = {}
    rlock = threading.Lock()
    errors = []
    done = [0]

    def worker(i):
        slot = W.Slot(i)
        for h in queues[i]:
            if errors:
                return
            slot.acquire()
            try:
                run = W.HistoryRun(ctx.world, slot, h).run()
            except HarnessError as e:
                errors.append(f"{h['id']}: {e}")
                return
            except Exception as e:  # noqa: BLE001
                import traceback
                errors.append(f"{h['id']}: {e!r}\n{traceback.format_exc()[-1200:]}")
                return
            finally:
                slot.release()
            with rlock:
                results[h["id"]] = run
                done[0] += 1
                if done[0] % 10 == 0:
                    log(f"{label}: {done[0]}/{len(histories)} histories done")

    with ThreadPoolExecutor(WORKERS) as ex:
        list(ex.map(worker, range(WORKERS)))
    if errors:
        harness_error(errors[0])
    return results


def run_one(ctx, history, slot_idx):
    slot = W.Slot(slot_idx)
    slot.acquire()
    try:
        return W.HistoryRun(ctx.world, slot, history).run()
    finally:
        slot.release()


def exec_digest(run):
    """What must be identical when the same history is executed twice."""
    rows = []
    for ex in run["execs"]:
        rows.append([ex["step"].get("label"), ex["step"]["bp"], ex["step"]["mode"], ex["step"]["hash_seed"], ex["exit"],
                     ex["signal"], ex["trace_hash"], sorted((k, v[0]) for k, v in ex["after"].items()),
                     ex["fault_fired"], ex.get("par_trace_hash")])
    return sha256_bytes(json.dumps(rows, sort_keys=True).encode())[:16], rows


# ---------------------------------------------------------------------------------- minimisation


def to_concrete(run):
    """A history made only of the primitive steps that were actually performed (faults have explicit k)."""
    return {"id": run["id"] + "-c", "arm": run.get("arm"), "init_cache": run["init_cache"],
            "init_toggles": run.get("init_toggles", {}), "steps": copy.deepcopy(run["concrete_steps"])}


def has_violation(ctx, run, prop, inv, sig):
    v, _, _ = O.evaluate(ctx.world, run)
    for x in v:
        if x["property"] == prop and x["invariant"] == inv and x["signature"] == sig:
            return x
    return None


def ensure_goldens_for(ctx, history):
    need = [(bp, tog) for bp, tog in P.needed_goldens([history]) if ctx.world.golden(bp, list(tog)) is None]
    if need:
        compute_goldens(ctx, need)


def minimise(ctx, run, viol, slot_idx, budget):
    """Greedy: cut everything after the failing execution, then try to drop each remaining step
    (last to first), keeping a candidate iff the same property+invariant+signature still fails."""
    prop, inv, sig = viol["property"], viol["invariant"], viol["signature"]
    h = to_concrete(run)
    # index of the concrete step of the failing exec
    n_exec = -1
    cut = len(h["steps"])
    for i, s in enumerate(h["steps"]):
        if s["op"] in ("exec", "overlap_at"):
            # an overlap step stands for two executions (the peer completes first, then the parked one)
            n_exec += 2 if (s["op"] == "overlap_at" and not s.get("peer_edit")) else 1
            if n_exec >= viol["exec"]:
                cut = i + 1
                break
    h["steps"] = h["steps"][:cut]
    best_run, best_v, tries = None, None, 0
    i = len(h["steps"]) - 2
    while i >= 0 and tries < budget:
        cand = copy.deepcopy(h)
        removed = cand["steps"].pop(i)
        # save/restore pairs only make sense together with the profile run; drop orphans with it
        if removed["op"] in ("save", "restore") and not any(s["op"] in ("save", "restore") for s in cand["steps"]):
            pass
        if removed["op"] == "save" and any(s["op"] == "restore" for s in cand["steps"]):
            i -= 1
            continue
        cand["id"] = f"{run['id']}-m{tries}"
        tries += 1
        try:
            ensure_goldens_for(ctx, cand)
            r = run_one(ctx, cand, slot_idx)
        except HarnessError:
            i -= 1
            continue
        v = has_violation(ctx, r, prop, inv, sig)
        if v:
            h, best_run, best_v = cand, r, v
        i -= 1
    # try a warm start instead of a colder one (cheaper replay), then try the pristine source state
    if tries < budget and h.get("init_cache") != "warm":
        cand = copy.deepcopy(h)
        cand["init_cache"] = "warm"
        cand["id"] = f"{run['id']}-mw"
        tries += 1
        r = run_one(ctx, cand, slot_idx)
        v = has_violation(ctx, r, prop, inv, sig)
        if v:
            h, best_run, best_v = cand, r, v
    if best_run is None:
        # nothing could be removed: re-run the truncated history to confirm it replays
        h["id"] = run["id"] + "-m"
        r = run_one(ctx, h, slot_idx)
        v = has_violation(ctx, r, prop, inv, sig)
        tries += 1
        if v:
            best_run, best_v = r, v
    return h, best_run, best_v, tries


# ---------------------------------------------------------------------------------- reporting


def load_known(prop):
    out = []
    p = os.path.join(VERIF, "known_findings.jsonl")
    if os.path.exists(p):
        for line in open(p):
            line = line.strip()
            if not line or line.startswith("#"):
                continue
            try:
                k = json.loads(line)
            except ValueError:
                continue
            if k.get("property") == prop and k.get("status") == "known":
                out.append(k)
    return out


def write_replay(ctx, prop, seed, tier, hist, run, v, minimised, occurrences):
    d = os.path.join(VERIF, "replays", prop)
    os.makedirs(d, exist_ok=True)
    safe = "".join(c if c.isalnum() or c in "-_" else "_" for c in f"{v['invariant']}--{v['signature']}")[:110]
    path = os.path.join(d, f"{safe}--seed{seed}.json")
    ex = run["execs"][v["exec"]]
    doc = {
        "property": prop, "sim": "compsim", "tier": tier, "seed": seed,
        "invariant": v["invariant"], "signature": v["signature"], "detail": v["detail"],
        "observed_sha256": v["observed"], "expected_sha256": v["expected"],
        "failing_execution": v["exec"], "occurrences_in_batch": occurrences, "minimised": minimised,
        "pavexc": ctx.pavexc, "pavexc_sha256": ctx.binsha, "slot": run["slot"],
        "history": {"id": hist["id"], "arm": hist.get("arm"), "init_cache": hist.get("init_cache", "warm"),
                    "init_toggles": hist.get("init_toggles", {}), "steps": hist["steps"]},
        "executions": [{"n": e["n"], "label": e["step"].get("label"), "argv": e["argv"], "cwd": e["cwd"], "env": e["env"],
                        "hash_seed": e["step"]["hash_seed"], "fault": e["step"].get("fault"), "fault_fired": e["fault_fired"],
                        "source_state": e["toggles"], "exit": e["exit"], "signal": e["signal"],
                        "files_after": {k: val[0] for k, val in e["after"].items()},
                        "project_write_ops": e["project_write_ops"][:12], "documenting": e["documenting"],
                        "stderr_tail": e["stderr"][-700:]} for e in run["execs"]],
        "failing_execution_trace": ex["trace"][-60:],
        "edits": [e for e in ctx.corpus["edits"] if any(s.get("edit") == e["name"] for s in hist["steps"]) or
                  e["name"] in sum(hist.get("init_toggles", {}).values(), [])],
        "how_to_replay": f"/verif/check {prop} --replay {path}",
    }
    with open(path, "w") as f:
        json.dump(doc, f, indent=1)
    return path


def sample_of(run):
    return {"id": run["id"], "arm": run["arm"], "slot": run["slot"], "init_cache": run["init_cache"],
            "init_toggles": run.get("init_toggles", {}), "steps": run["steps"],
            "executions": [{"label": e["step"].get("label"), "mode": e["step"]["mode"], "bp": e["step"]["bp"],
                            "proj": e["proj"], "hash_seed": e["step"]["hash_seed"], "diag": e["step"].get("diag"),
                            "fault": e["step"].get("fault"), "fault_fired": e["fault_fired"], "source_state": e["toggles"],
                            "exit": e["exit"], "wall_s": e["wall_s"], "documenting": e["documenting"],
                            "project_write_ops": [o[:3] for o in e["project_write_ops"][:8]], "n_ops": e["n_ops"]}
                           for e in run["execs"]]}


def median(xs):
    xs = sorted(xs)
    return xs[len(xs) // 2] if xs else 0.0


def cpu_class(ex):
    b = ex["cache_bytes_written"]
    return "toolchain-cold" if b > 50_000_000 else ("third-party-cold" if b > 500_000 else "warm")


# ---------------------------------------------------------------------------------- check


def cmd_check(prop, tier):
    if prop not in ("C09", "C10"):
        harness_error(f"compsim does not serve {prop}")
    if tier not in ("quick", "thorough"):
        harness_error(f"unknown tier {tier}")
    seed = int(os.environ.get("VERIF_SEED", DEFAULT_SEED))
    corpus = load_corpus()
    hists = P.plan(prop, tier, seed, corpus)
    if json.dumps(hists, sort_keys=True) != json.dumps(P.plan(prop, tier, seed, corpus), sort_keys=True):
        harness_error("the history generator is not a pure function of the seed")
    plan_digest = sha256_bytes(json.dumps(hists, sort_keys=True).encode())[:16]
    need = P.needed_goldens(hists)
    ctx = prepare(need)
    t_prep = time.time() - T0
    log(f"prepared in {t_prep:.1f}s; plan {plan_digest}: {len(hists)} histories, {len(need)} goldens needed")
    rdir = os.path.join(VERIF, "replays", prop)
    if os.path.isdir(rdir):
        for f in os.listdir(rdir):
            try:
                os.unlink(os.path.join(rdir, f))
            except OSError:
                pass
    # determinism self-check: a seeded sample of histories is executed a second time, in the same slot
    rng = Rng(h64(seed, "det-sample", prop, tier))
    cheap = [h for h in hists if h["arm"] not in ("crash_enum", "empty_cache") and h.get("init_cache", "warm") == "warm"]
    n_det = min(len(cheap), 4 if tier == "quick" else 24)
    det_ids = set()
    while len(det_ids) < n_det:
        det_ids.add(rng.choice(cheap)["id"])
    # the seeded thread scheduler of arm `par` is re-checked in every batch
    par_h = [h for h in cheap if h["arm"] == "par"]
    for h in par_h[:1 if tier == "quick" else 6]:
        det_ids.add(h["id"])
    twins = []
    for h in hists:
        if h["id"] in det_ids:
            t = copy.deepcopy(h)
            t["id"] = h["id"] + "-twin"
            twins.append(t)
    queues = P.assign_slots(hists, WORKERS, min(N_SIBLING_SLOTS, WORKERS), min(UI.N_UI_SLOTS, WORKERS))
    slot_of = {h["id"]: s for s, q in queues.items() for h in q}
    t_run0 = time.time()
    results = run_batch(ctx, hists, f"{prop} {tier}")
    # twins run afterwards, pinned to the slot of their original (identical absolute paths)
    twin_results = {}
    if twins:
        by_slot = {}
        for t in twins:
            by_slot.setdefault(slot_of[t["id"][:-5]], []).append(t)

        def twin_worker(item):
            s, ts = item
            for t in ts:
                twin_results[t["id"]] = run_one(ctx, t, s)

        with ThreadPoolExecutor(WORKERS) as ex:
            list(ex.map(twin_worker, sorted(by_slot.items())))
    t_run = time.time() - t_run0
    divergences = []
    for t in twins:
        a, rows_a = exec_digest(results[t["id"][:-5]])
        b, rows_b = exec_digest(twin_results[t["id"]])
        if a != b:
            for ra, rb in zip(rows_a, rows_b):
                if ra != rb:
                    divergences.append(f"{t['id'][:-5]}: {ra[:7]} vs {rb[:7]}")
                    break
            else:
                divergences.append(f"{t['id'][:-5]}: different number of executions")

    # ---------------------------------------------------------------- evaluate
    all_execs = []
    viols = []
    probes, observations = {}, {}
    arm_counts = {}
    for h in hists:
        run = results[h["id"]]
        v, p, o = O.evaluate(ctx.world, run)
        viols += [dict(x, _run=run) for x in v]
        for k, n in p.items():
            probes[k] = probes.get(k, 0) + n
        for k, n in o.items():
            observations[k] = observations.get(k, 0) + n
        arm_counts[run["arm"]] = arm_counts.get(run["arm"], 0) + 1
        all_execs += [(run, e) for e in run["execs"]]
    # extra probes that need the step list
    for h in hists:
        run = results[h["id"]]
        steps = run["concrete_steps"]
        edited_dep = False
        ei = 0
        for s in steps:
            if s["op"] == "edit":
                cls = next(e["class"] for e in corpus["edits"] if e["name"] == s["edit"])
                edited_dep = cls.startswith("dep") or cls == "cross-file-move"
                probes["source_edit_" + cls] = probes.get("source_edit_" + cls, 0) + 1
            elif s["op"] == "touch":
                probes["source_touch_only"] = probes.get("source_touch_only", 0) + 1
            elif s["op"] == "evict":
                probes["evict_" + s["what"]] = probes.get("evict_" + s["what"], 0) + 1
            elif s["op"] == "seed_outdir":
                probes["outdir_" + s["state"]] = probes.get("outdir_" + s["state"], 0) + 1
            elif s["op"] == "overlap_at" and s.get("peer_edit"):
                ei += 1
                probes["source_saved_while_pavexc_was_parked"] = probes.get("source_saved_while_pavexc_was_parked", 0) + 1
            elif s["op"] == "overlap_at":
                ei += 2
                probes["overlapping_processes"] = probes.get("overlapping_processes", 0) + 1
            elif s["op"] == "exec":
                e = run["execs"][ei]
                ei += 1
                if edited_dep and e["proj"] == s.get("proj", "p0"):
                    if not any(d.startswith("simdep@") for d in e["documenting"]):
                        probes["cache_hit_after_edit"] = probes.get("cache_hit_after_edit", 0) + 1
                    else:
                        probes["cache_miss_after_edit"] = probes.get("cache_miss_after_edit", 0) + 1
                    edited_dep = False
                if e["proj"] == "p1":
                    probes["sibling_project_execution"] = probes.get("sibling_project_execution", 0) + 1
        if run["init_cache"] != "warm":
            probes["start_" + run["init_cache"] + "_cache"] = probes.get("start_" + run["init_cache"] + "_cache", 0) + 1
    # C09 item 1, CPU part: 20 x the median of the run class
    by_class = {}
    for run, e in all_execs:
        if not e["step"].get("fault"):
            by_class.setdefault(cpu_class(e), []).append(e["cpu_s"])
    med = {k: median(v) for k, v in by_class.items()}
    suspects = [(run, e) for run, e in all_execs if not e["step"].get("fault") and not e["timed_out"]
                and e["cpu_s"] > 20 * max(med.get(cpu_class(e), 0), 1.0)]
    for run, e in suspects:
        again = run_one(ctx, to_concrete(run), run["slot"])
        e2 = again["execs"][e["n"]] if e["n"] < len(again["execs"]) else None
        if e2 and e2["cpu_s"] > 20 * max(med.get(cpu_class(e), 0), 1.0):
            viols.append({"property": "C09", "invariant": "terminates", "signature": "cpu-time-over-20x-class-median", "exec": e["n"],
                          "detail": f"{e['cpu_s']} s CPU (and {e2['cpu_s']} s on replay) vs class median {med.get(cpu_class(e))} s",
                          "observed": {}, "expected": {}, "history": run["id"], "hash_seed": e["step"]["hash_seed"],
                          "bp": e["step"]["bp"], "_run": run})
        else:
            # e.g. the first execution after a change to /repo/runtime recompiles the path dependencies
            # inside `cargo rustdoc`: slow once, not a property of pavexc. Recorded, not reported.
            observations["cpu_outlier_not_reproduced"] = observations.get("cpu_outlier_not_reproduced", 0) + 1
    # (a blueprint flagged `known_hang` in corpus.json carries its name in the signature: its timeouts are a
    # recorded finding, re-running each of them would only cost another wall limit)
    timeouts = [x for x in viols if x["signature"] == "wall-clock-timeout"]
    for x in timeouts:
        run = x["_run"]
        again = run_one(ctx, to_concrete(run), run["slot"])
        if not any(e["timed_out"] for e in again["execs"]):
            harness_error(f"{run['id']}: a wall-clock timeout did not reproduce on replay")

    # ---------------------------------------------------------------- group, minimise, report
    mine = [x for x in viols if x["property"] == prop]
    other = {}
    for x in viols:
        if x["property"] != prop:
            k = f"{x['property']}:{x['invariant']}:{x['signature']}"
            other[k] = other.get(k, 0) + 1
    groups = {}
    for x in mine:
        groups.setdefault((x["invariant"], x["signature"]), []).append(x)
    known = load_known(prop)
    lines = []
    n_viol = n_known = 0
    shrink_runs = 0
    inexact = []
    order = sorted(groups)
    budget = 10 if tier == "quick" else 25

    def do_min(item):
        idx, key = item
        xs = groups[key]
        # cheapest witness first: fewest executions, then lowest history id
        xs.sort(key=lambda x: (len(x["_run"]["execs"]), x["history"], x["exec"]))
        x = xs[0]
        run = x["_run"]
        slot = run["slot"]
        # every candidate of a non-terminating execution costs a full wall-clock limit: only cut the
        # history after the failing execution and confirm that it replays
        b = 1 if key[1].startswith("wall-clock-timeout") else budget
        return key, x, minimise(ctx, run, x, slot, b)

    # different groups are minimised in parallel only when they sit on different slots
    mins = {}
    by_slot = {}
    for idx, key in enumerate(order):
        xs = sorted(groups[key], key=lambda x: (len(x["_run"]["execs"]), x["history"], x["exec"]))
        by_slot.setdefault(xs[0]["_run"]["slot"], []).append((idx, key))

    def slot_worker(items):
        return [do_min(it) for it in items]

    if order:
        log(f"minimising {len(order)} distinct violation pattern(s) ...")
        with ThreadPoolExecutor(WORKERS) as ex:
            for res in ex.map(slot_worker, [v for _, v in sorted(by_slot.items())]):
                for key, x, m in res:
                    mins[key] = (x, m)
    for key in order:
        x, (mh, mrun, mv, tries) = mins[key]
        shrink_runs += tries
        occ = len(groups[key])
        if mrun is None:
            inexact.append(f"{key[0]}/{key[1]} ({x['history']}#{x['exec']})")
            mh, mrun, mv = to_concrete(x["_run"]), x["_run"], x
        path = write_replay(ctx, prop, seed, tier, mh, mrun, mv, mrun is not x["_run"], occ)
        k = next((k for k in known if k.get("invariant") == key[0] and k.get("signature") == key[1]), None)
        if k:
            n_known += 1
            lines.append(f"KNOWN-FINDING: property={prop} {k.get('what', '')} [invariant={key[0]} signature={key[1]} "
                         f"occurrences={occ} replay={path}]")
        else:
            n_viol += 1
            lines.append(f"VIOLATION property={prop} replay={path}")
            lines.append(f"  invariant={key[0]} signature={key[1]} occurrences={occ} seed={seed} history={x['history']} "
                         f"exec={x['exec']} bp={x['bp']} hash_seed={x['hash_seed']} :: {mv['detail'][:400]}")

    # ---------------------------------------------------------------- evidence
    n_exec = len(all_execs)
    tuples = set()
    traces = set()
    fault_counts = {}
    for run, e in all_execs:
        traces.add(e["trace_hash"])
        st = e["step"]
        first_cold = (e["n"] == 0 and run["init_cache"] == "empty")
        if not first_cold:
            out_state = tuple(sorted((k, v[0][:8]) for k, v in e["before"].items()))
            tuples.add((st["bp"], st["mode"], st["hash_seed"], cpu_class(e), run["init_cache"], tuple(e["documenting"]),
                        out_state, json.dumps(st.get("fault"), sort_keys=True), tuple(e["toggles"])))
        if st.get("fault"):
            k = f"{st['fault']['kind']}_{st['fault']['phase']}"
            fc = fault_counts.setdefault(k, {"planned": 0, "fired": 0})
            fc["planned"] += 1
            if e["fault_fired"]:
                fc["fired"] += 1
    wall = time.time() - T0
    expected_probes = ["cache_hit_after_edit", "sdk_file_rewritten", "check_found_outdated",
                       "error_path_with_2plus_diagnostics", "healed_after_fault", "rerun_on_unchanged_inputs",
                       "pre_existing_sdk_present_at_failure", "third_party_docs_inserted_in_cache",
                       "par_section_with_several_tasks"]
    sample_ids = []
    for arm in ("edit", "fault", "sibling", "sweep"):
        for h in hists:
            if h["arm"] == arm:
                sample_ids.append(h["id"])
                break
    evidence = {
        "property_id": prop, "tier": tier, "seed": seed, "level": "exploration",
        "coverage": {
            "evaluations": n_exec,
            "distinct_nontrivial": len(tuples),
            "rule": "one evaluation = one pavexc process execution inside a seeded history (2-8 executions over one scratch "
                    "project + one cache HOME; composite fault steps add a profiling execution). distinct_nontrivial = number of "
                    "distinct (blueprint, mode, hash seed, cache class actually observed [warm / third-party-cold / "
                    "toolchain-cold + crates re-documented], initial cache, output-directory content before the run, fault, "
                    "source state) tuples among executions that are not the plain cold first run of an empty-cache history",
            "samples": [sample_of(results[i]) for i in sample_ids[:3]],
            "simulator": "compsim",
            "histories": len(hists),
            "histories_per_arm": arm_counts,
            "golden_runs_memoised": len(need),
            "runs_per_hour": int(n_exec / max(t_run, 1e-9) * 3600),
            "faults_fired": fault_counts,
            "probes": dict(sorted(probes.items())),
            "probes_never_hit": [p for p in expected_probes if not probes.get(p)],
            "observations_not_violations": dict(sorted(observations.items())),
            "distinct_file_operation_traces": len(traces),
            "distinct_thread_interleavings_arm_par": len({ex.get("par_trace_hash") for r in results.values() for ex in r["execs"] if ex.get("par_trace_hash")}),
            "cpu_s_median_per_class": med,
            "determinism_check": {"histories_run_twice": len(twins), "divergences": len(divergences),
                                  "compared": "exit status, shim op-trace hash, SHA-256 of every tracked file after each execution",
                                  "plan_digest": plan_digest},
            "shrink_runs": shrink_runs,
            "worker_slots": WORKERS,
            "components_real": ["pavexc binary built from /repo's working tree", "cargo / rustdoc / rustup child processes",
                                "SQLite rustdoc cache under a per-history HOME", "project directory (scratch copy of the fixture)",
                                "upstream UI-test workspace (real copy inside a symlink mirror of /repo)",
                                "blueprints serialised by Blueprint::persist of the tree under test"],
            "components_stub": ["OS entropy (getrandom -> SplitMix64 from VERIF_HASH_SEED)", "ASLR off (setarch -R)",
                                "rayon width fixed to 1; arm `par`: the parallel sections of CrateCollection (cache look-ups, indexing) run on real threads of which exactly one runs at a time, released at yield points (diagnostic sink, cache look-up, task end) by a scheduler seeded from VERIF_PAR_SEED (cfg(pavex_verif) build of pavexc)", "disk faults / crash points injected by the LD_PRELOAD shim",
                                "order and kind of runs chosen by the seeded history generator"],
            "violations_of_other_properties_seen": other,
            "known_findings_seen": n_known,
            "prepare_s": round(t_prep, 1), "batch_s": round(t_run, 1),
            "pavexc_sha256": ctx.binsha,
            "exhaustive": False,
        },
        "assumptions": [
            f"the program dimension is two fixed corpora: /verif/fixtures ({sum(1 for b in corpus['blueprints'].values() if b['expect'] == 'accept')} accepted + "
            f"{sum(1 for b in corpus['blueprints'].values() if b['expect'] == 'reject')} rejected blueprints over simapp/simdep, with source edits) and the "
            f"{len(corpus['ui_apps'])} upstream UI-test applications of /repo/compiler/ui_tests (a seeded selection in quick, all of them in thorough)",
            "cargo and rustdoc are deterministic for unchanged sources; rayon itself runs at width 1, thread interleavings of the two parallel sections that share state (diagnostic sink, cache) are explored by the seeded scheduler of arm `par`; the two remaining rayon sections (JSON loading, conversion to the cache format) are pure and stay at width 1",
            "golden bytes come from a clean world of the same pavexc binary: fresh scratch project, hash seed 0, cache holding only "
            "rows whose sources no history edits (toolchain crates, registry crates, /repo/runtime/pavex; no row of the path "
            "dependency simdep, no access log); toolchain-only and empty caches are explored as history start states",
            "disk-fault and crash arms are not held to C09 items 2-4; their outcomes are recorded as observations",
        ],
        "wall_s": round(wall, 1),
        "violations": n_viol,
    }
    # evidence and replays go under VERIF_DIR when set (mutant evaluations must not touch the committed files)
    out_root = os.environ.get("VERIF_DIR", VERIF)
    os.makedirs(os.path.join(out_root, "evidence"), exist_ok=True)
    with open(os.path.join(out_root, "evidence", f"{prop}.json"), "w") as f:
        json.dump(evidence, f, indent=1)
    results_digest = sha256_bytes(json.dumps([exec_digest(results[h["id"]])[0] for h in hists]).encode())[:16]
    verdict_digest = sha256_bytes(json.dumps(sorted(f"{x['property']}|{x['invariant']}|{x['signature']}|{x['history']}|{x['exec']}"
                                                    for x in viols)).encode())[:16]
    if os.environ.get("COMPSIM_KEEP"):
        with open(os.path.join(WORK, f"last-{prop}.json"), "w") as f:
            json.dump({"results": [results[h["id"]] for h in hists],
                       "violations": [{k: v for k, v in x.items() if k != "_run"} for x in viols]}, f)
    print(f"compsim {prop} {tier}: executions={n_exec} histories={len(hists)} distinct_nontrivial={len(tuples)} "
          f"distinct_traces={len(traces)} violations={n_viol} known={n_known} wall={wall:.1f}s batch={t_run:.1f}s "
          f"runs_per_hour={evidence['coverage']['runs_per_hour']} det_checked={len(twins)} seed={seed} "
          f"plan={plan_digest} results={results_digest} verdicts={verdict_digest}")
    for l in lines:
        print(l)
    sys.stdout.flush()
    changed = []
    if repo_inputs_digest() != ctx.inputs:
        changed.append("sources under /repo/{" + ",".join(REPO_INPUT_DIRS) + "} (inputs of every execution)")
    if sha256_file(ctx.pavexc) != ctx.binsha:
        changed.append("the pavexc binary " + ctx.pavexc)
    if changed:
        harness_error(" and ".join(changed) + " changed while the batch was running (somebody is editing /repo); "
                      "the results above are not trustworthy, run the check again")
    if divergences:
        harness_error("nondeterminism: the same history gave different executions twice: " + "; ".join(divergences[:3]))
    if inexact:
        harness_error("a violation did not reproduce when its history was re-executed: " + "; ".join(inexact))
    sys.exit(1 if n_viol else 0)


# ---------------------------------------------------------------------------------- replay


def cmd_replay(prop, path):
    try:
        doc = json.load(open(path))
    except (OSError, ValueError) as e:
        harness_error(f"cannot read replay file {path}: {e}")
    hist = dict(doc["history"])
    hist["id"] = "replay"
    need = P.needed_goldens([hist])
    ctx = prepare(need)
    run = run_one(ctx, hist, int(doc.get("slot", 0)) % WORKERS)
    v = has_violation(ctx, run, doc["property"], doc["invariant"], doc["signature"])
    allv, _, _ = O.evaluate(ctx.world, run)
    for e in run["execs"]:
        print(f"  exec {e['n']}: {e['step']['mode']} {e['step']['bp']} seed={e['step']['hash_seed']} "
              f"fault={e['step'].get('fault')} -> exit={e['exit']} signal={e['signal']} documenting={e['documenting']}")
    if v:
        print(f"VIOLATION property={doc['property']} replay={path}")
        print(f"  invariant={v['invariant']} signature={v['signature']} exec={v['exec']} :: {v['detail'][:400]}")
        print(f"  observed={json.dumps(v['observed'])[:300]} expected={json.dumps(v['expected'])[:300]}")
        sys.exit(1)
    print(f"replay: {doc['invariant']}/{doc['signature']} did not reproduce "
          f"({len(allv)} other violation(s): {sorted({x['signature'] for x in allv})})")
    sys.exit(0)


def cmd_setup():
    corpus = load_corpus()
    need = set()
    for tier in ("quick",):
        for prop in ("C09", "C10"):
            need |= set(P.needed_goldens(P.plan(prop, tier, DEFAULT_SEED, corpus)))
    ctx = prepare(sorted(need))
    log(f"setup done: state {ctx.state_dir}, {len(need)} goldens")
    print("compsim setup done")


def cmd_plan(prop, tier):
    seed = int(os.environ.get("VERIF_SEED", DEFAULT_SEED))
    hs = P.plan(prop, tier, seed, load_corpus())
    n = sum(1 for h in hs for s in h["steps"] if s["op"] == "exec")
    print(json.dumps({"histories": len(hs), "plain_execs": n, "goldens": len(P.needed_goldens(hs)),
                      "digest": sha256_bytes(json.dumps(hs, sort_keys=True).encode())[:16]}))
    if os.environ.get("COMPSIM_VERBOSE"):
        print(json.dumps(hs, indent=1))


def main():
    a = sys.argv[1:]
    try:
        if not a:
            harness_error("usage: compsim.py setup | check <ID> <tier> | replay <ID> <file> | plan <ID> <tier>")
        if a[0] == "setup":
            cmd_setup()
        elif a[0] == "check" and len(a) >= 2:
            cmd_check(a[1], a[2] if len(a) > 2 else "quick")
        elif a[0] == "replay" and len(a) == 3:
            cmd_replay(a[1], a[2])
        elif a[0] == "plan" and len(a) >= 2:
            cmd_plan(a[1], a[2] if len(a) > 2 else "quick")
        else:
            harness_error("bad arguments: " + " ".join(a))
    except HarnessError as e:
        harness_error(str(e))


if __name__ == "__main__":
    main()
