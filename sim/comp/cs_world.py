"""compsim — the simulated world: slots (scratch project + HOME + cargo target dir), pavexc
executions under the shim, file snapshots, cache manipulation, history execution."""
import fcntl
import glob
import json
import os
import shutil
import signal
import sqlite3
import subprocess
import threading
import time

from cs_util import *  # noqa: F401,F403
import cs_ui as UI

TRACKED_DIAG = ("diag.dot", "diag-new.dot")
WRITE_CLASS = {"open_creat", "open_trunc", "write", "pwrite", "writev", "fsync", "fdatasync", "rename",
               "ftruncate", "unlink"}
HAVE_CHATTR = None


def have_chattr():
    global HAVE_CHATTR
    if HAVE_CHATTR is None:
        os.makedirs(WORK, exist_ok=True)
        p = os.path.join(WORK, f".chattr-probe-{os.getpid()}")
        open(p, "w").close()
        r = subprocess.run(["chattr", "+i", p], capture_output=True)
        ok = r.returncode == 0
        if ok:
            try:
                open(p, "w").close()
                ok = False  # immutable flag had no effect
            except OSError:
                pass
            subprocess.run(["chattr", "-i", p], capture_output=True)
        os.unlink(p)
        HAVE_CHATTR = ok
    return HAVE_CHATTR


def rmtree(path):
    if not os.path.lexists(path):
        return
    if have_chattr():
        subprocess.run(["chattr", "-R", "-i", path], capture_output=True)
    shutil.rmtree(path, ignore_errors=True)
    if os.path.lexists(path):
        subprocess.run(["rm", "-rf", path])


def cp_a(src, dst):
    r = subprocess.run(["cp", "-a", src, dst], capture_output=True, text=True)
    if r.returncode != 0:
        raise HarnessError(f"cp -a {src} {dst}: {r.stderr.strip()}")


class Slot:
    """One scratch world. Paths are a function of the slot index only, so a history that is
    assigned to a slot deterministically sees deterministic absolute paths."""

    def __init__(self, idx):
        self.idx = idx
        self.dir = os.path.join(WORK, "slots", f"{idx:02d}")
        self.home = os.path.join(self.dir, "home")
        self.lock_path = os.path.join(WORK, "slots", f"{idx:02d}.lock")
        self._lock_f = None

    def proj(self, p):
        if p == "ui":
            return os.path.join(self.dir, "ui", UI.UI_REL)
        return os.path.join(self.dir, p, "ws")

    def target(self, p):
        return os.path.join(self.dir, "target-" + p)

    def acquire(self):
        os.makedirs(self.dir, exist_ok=True)
        self._lock_f = open(self.lock_path, "w")
        fcntl.flock(self._lock_f, fcntl.LOCK_EX)

    def release(self):
        if self._lock_f:
            fcntl.flock(self._lock_f, fcntl.LOCK_UN)
            self._lock_f.close()
            self._lock_f = None


class World:
    """Everything a history run needs that is not per slot."""

    def __init__(self, pavexc, state_dir, corpus, base_files):
        self.pavexc = pavexc
        self.state_dir = state_dir
        self.bps_dir = os.path.join(state_dir, "bps")
        self.corpus = corpus
        self.edits = corpus["edits"]
        self.base = base_files
        self.gold_lock = threading.Lock()
        self.gold_mem = {}
        self.compute_golden = None  # hook: (bp, toggles) -> None, computes and memoises a missing golden
        self.timeouts_seen = {}  # blueprint -> executions that hit the wall-clock limit in this process
        self.ui_apps = {a["pkg"]: a for a in corpus.get("ui_apps", [])}
        self.ui_bps_dir = os.path.join(state_dir, "ui_bps")
        self.ui_template = os.path.join(state_dir, "ui")

    def ui_app(self, bp):
        """`ui:<pkg>` -> {dir, pkg, expect}"""
        a = self.ui_apps.get(bp[3:])
        if a is None:
            raise HarnessError(f"unknown UI application {bp}")
        return a

    # ------------------------------------------------------------------ goldens
    def golden_path(self, bp, toggles):
        return os.path.join(self.state_dir, "goldens", f"{bp}__{state_key(toggles)}")

    def golden(self, bp, toggles):
        key = (bp, state_key(toggles))
        with self.gold_lock:
            if key in self.gold_mem:
                return self.gold_mem[key]
        d = self.golden_path(bp, toggles)
        meta = os.path.join(d, "golden.json")
        if not os.path.exists(meta):
            return None
        g = json.load(open(meta))
        g["dir"] = d
        with self.gold_lock:
            self.gold_mem[key] = g
        return g

    def golden_or_compute(self, bp, toggles):
        g = self.golden(bp, toggles)
        if g is None and self.compute_golden:
            self.compute_golden(bp, sorted(toggles))
            g = self.golden(bp, toggles)
        return g

    def golden_bytes(self, bp, toggles, name):
        g = self.golden(bp, toggles)
        if g is None or name not in g["files"]:
            return None
        return open(os.path.join(g["dir"], name.replace("/", "__")), "rb").read()


# ---------------------------------------------------------------------------------- snapshots


def snapshot_ws(ws):
    """rel path -> [sha256, mtime_ns, size] for every regular file of the project (no target dir)."""
    out = {}
    for root, dirs, files in os.walk(ws):
        dirs[:] = [d for d in dirs if not (root == ws and d == "target")]
        for fn in files:
            p = os.path.join(root, fn)
            try:
                st = os.lstat(p)
                if not os.path.isfile(p):
                    continue
                out[os.path.relpath(p, ws)] = [sha256_file(p), st.st_mtime_ns, st.st_size]
            except OSError:
                continue
    return out


def is_tracked(rel):
    return rel == "Cargo.toml" or rel.startswith("sdk/") or rel in TRACKED_DIAG


def file_class(rel):
    if rel in TRACKED_DIAG or rel.endswith(".dot"):
        return "diagnostics-file"
    if rel == "Cargo.toml":
        return "root-manifest"
    if rel == "sdk/Cargo.toml":
        return "sdk-manifest"
    if rel == "sdk/src/lib.rs":
        return "sdk-source"
    if rel.startswith("sdk/"):
        return "sdk-other-file"
    if rel == "Cargo.lock":
        return "lockfile"
    return "other-file"


# ---------------------------------------------------------------------------------- trace


def parse_trace(path, slot, proj, extra_subs=()):
    """Returns (ops, fault) with paths normalised: $HOME, $WS, $TARGET, $SLOT."""
    ops = []
    fault = None
    if not os.path.exists(path):
        return ops, fault
    subs = list(extra_subs) + [(slot.home, "$HOME"), (slot.proj(proj), "$WS"), (slot.target(proj), "$TARGET"),
                               (slot.dir, "$SLOT")]

    def norm(p):
        if p.startswith("/"):
            p = os.path.normpath(p)  # `-o ../ws/sdk` and friends
        for a, b in subs:
            p = p.replace(a, b)
        return p

    with open(path, errors="replace") as f:
        for line in f:
            parts = line.rstrip("\n").split(" ")
            if parts[0] == "FAULT" and len(parts) >= 7:
                fault = {"kind": parts[1], "k": int(parts[2]), "op": parts[3], "path": norm(" ".join(parts[4:-2])),
                         "size": int(parts[-2]), "prefix": int(parts[-1])}
                continue
            if len(parts) < 4:
                continue
            try:
                pth = norm(" ".join(parts[1:-2]))
                if pth.startswith("$SLOT/out-") or pth.startswith("$SLOT/err-"):
                    continue  # pavexc's own stdout / stderr, redirected to files by the harness
                ops.append((parts[0], pth, int(parts[-2]), int(parts[-1])))
            except ValueError:
                continue
    return ops, fault


def phase_of(path):
    if path.startswith("$HOME/.pavex"):
        return "cache"
    if path.startswith("$TARGET"):
        return "target"
    if path.startswith("$WS"):
        return "project"
    return "elsewhere"


# ---------------------------------------------------------------------------------- cache ops


def cache_db(home):
    dbs = sorted(glob.glob(os.path.join(home, ".pavex", "rustdoc", "cache", "*.db")))
    return dbs[0] if dbs else None


def evict(home, what, name=None):
    """Returns number of rows deleted."""
    db = cache_db(home)
    if not db:
        return 0
    c = sqlite3.connect(db, timeout=30)
    try:
        if what == "crate":
            n = c.execute("DELETE FROM rustdoc_3d_party_crates_cache WHERE crate_name = ?", (name,)).rowcount
        elif what == "access_log":
            n = c.execute("DELETE FROM project2package_id_access_log").rowcount
        elif what == "toolchain":
            n = c.execute("DELETE FROM rustdoc_toolchain_crates_cache WHERE name = ?", (name,)).rowcount
        elif what == "all_third_party":
            n = c.execute("DELETE FROM rustdoc_3d_party_crates_cache").rowcount
            c.execute("DELETE FROM project2package_id_access_log")
        elif what == "unindex":
            # keep the raw docs, drop the secondary indexes: pavexc must re-index ("Raw" entry)
            n = c.execute("UPDATE rustdoc_3d_party_crates_cache SET import_index = NULL, import_path2id = NULL, "
                          "re_exports = NULL, annotated_items = NULL WHERE crate_name = ?", (name,)).rowcount
        else:
            raise HarnessError(f"unknown eviction {what}")
        c.commit()
        c.execute("PRAGMA wal_checkpoint(TRUNCATE)")
    finally:
        c.close()
    return n


def cache_rows(home):
    db = cache_db(home)
    if not db:
        return {}
    c = sqlite3.connect(db, timeout=30)
    try:
        rows = c.execute("SELECT crate_name, crate_hash FROM rustdoc_3d_party_crates_cache").fetchall()
        return {f"{a}@{b}" for a, b in rows}
    except sqlite3.Error:
        return set()
    finally:
        c.close()


# ---------------------------------------------------------------------------------- history runner


# wall-clock limit of one pavexc execution (a normal one takes 2-40 s)
DEFAULT_TIMEOUT = float(os.environ.get("COMPSIM_TIMEOUT", "600"))


class HistoryRun:
    """Executes one history (a list of primitive/composite steps) in a slot."""

    def __init__(self, world, slot, history, log=None):
        self.w = world
        self.slot = slot
        self.h = history
        self.execs = []  # execution records
        self.concrete = []  # primitive steps actually performed (explicit replay script)
        self.toggles = {"p0": set(), "p1": set(), "ui": set()}
        self.projects = set()
        self.post_fault = False
        self.notes = []
        self.saved = None
        self.seq = 0

    # -------------------------------------------------------------- project / home set-up
    def _write_sources(self, proj, toggles, only_changed):
        ws = self.slot.proj(proj)
        files = render_sources(self.w.base, toggles, self.w.edits)
        changed = []
        for rel, data in files.items():
            p = os.path.join(ws, rel)
            if only_changed and os.path.exists(p) and open(p, "rb").read() == data:
                continue
            os.makedirs(os.path.dirname(p), exist_ok=True)
            with open(p, "wb") as f:
                f.write(data)
            changed.append(rel)
        for rel, target in sorted(self.w.corpus.get("symlinks", {}).items()):
            p = os.path.join(ws, rel)
            if not os.path.lexists(p):
                os.makedirs(os.path.dirname(p), exist_ok=True)
                os.symlink(target, p)
        return changed

    def _touch_sources(self, proj):
        ws = self.slot.proj(proj)
        now = time.time_ns()
        for rel in self.w.base:
            if rel == "Cargo.lock":
                continue
            p = os.path.join(ws, rel)
            if os.path.exists(p):
                os.utime(p, ns=(now, now))

    def reset_project(self, proj, toggles=()):
        d = os.path.join(self.slot.dir, proj)
        if proj == "ui":
            if not os.path.isdir(os.path.join(self.w.ui_template, "R")):
                raise HarnessError("the UI-test template is missing (run setup)")
            rmtree(d)
            os.makedirs(d)
            cp_a(os.path.join(self.w.ui_template, "R"), os.path.join(d, "R"))
            self.toggles[proj] = set()
            self.projects.add(proj)
            os.makedirs(self.slot.target(proj), exist_ok=True)
            return
        rmtree(d)
        os.makedirs(os.path.join(d, "ws"))
        os.symlink("ws", os.path.join(d, "wsl"))  # another way to reach the project (arm symlink_out)
        self.toggles[proj] = set(toggles)
        self._write_sources(proj, self.toggles[proj], only_changed=False)
        self._touch_sources(proj)
        self.projects.add(proj)
        os.makedirs(self.slot.target(proj), exist_ok=True)

    def reset_home(self, kind):
        rmtree(self.slot.home)
        if kind == "empty":
            os.makedirs(self.slot.home)
        else:
            src = os.path.join(self.w.state_dir, {"warm": "home-warm", "toolchain": "home-tc", "nodep": "home-nodep"}[kind])
            if not os.path.isdir(src):
                raise HarnessError(f"cache snapshot {src} is missing (run setup)")
            cp_a(src, self.slot.home)

    # -------------------------------------------------------------- where things are
    def layout(self, proj, bp):
        """Canonical names (`sdk/...`, `diag.dot`, `Cargo.toml`) <-> real paths of a project."""
        ws = self.slot.proj(proj)
        if proj != "ui":
            return {"ws": ws, "out": "sdk", "sdk": os.path.join(ws, "sdk"), "app_dir": None,
                    "bp_path": os.path.join(self.w.bps_dir, bp + ".ron"),
                    "real": lambda rel: os.path.join(ws, rel), "subs": []}
        app = self.w.ui_app(bp)
        d = app["dir"]
        diag = {"diag.dot": os.path.join(d, "diagnostics.dot"), "diag-new.dot": os.path.join(d, "diag-new.dot")}

        def real(rel):
            if rel.startswith("sdk/"):
                return os.path.join(ws, d, "generated_app", rel[4:])
            if rel in diag:
                return os.path.join(ws, diag[rel])
            return os.path.join(ws, rel)

        subs = [(os.path.join(ws, d, "generated_app"), "$WS/sdk"), (os.path.join(ws, diag["diag.dot"]), "$WS/diag.dot"),
                (os.path.join(ws, diag["diag-new.dot"]), "$WS/diag-new.dot")]
        return {"ws": ws, "out": os.path.join(d, "generated_app"), "sdk": os.path.join(ws, d, "generated_app"), "app_dir": d,
                "bp_path": os.path.join(self.w.ui_bps_dir, app["pkg"] + ".ron"), "real": real, "subs": subs}

    def snapshot(self, proj, lay):
        if proj != "ui":
            return snapshot_ws(lay["ws"])
        ws, d = lay["ws"], lay["app_dir"]
        out = {}
        for rel, v in snapshot_ws(os.path.join(ws, d)).items():
            if rel.startswith("generated_app/"):
                out["sdk/" + rel[len("generated_app/"):]] = v
            elif rel == "diagnostics.dot":
                out["diag.dot"] = v
            elif rel == "diag-new.dot":
                out["diag-new.dot"] = v
            else:
                out["app/" + rel] = v
        for rel in ("Cargo.toml", "Cargo.lock"):
            p = os.path.join(ws, rel)
            if os.path.isfile(p):
                st = os.lstat(p)
                out[rel] = [sha256_file(p), st.st_mtime_ns, st.st_size]
        return out

    # -------------------------------------------------------------- one pavexc execution
    def exec_pavexc(self, step, between=None):
        """`between`: called once the process has been started (overlap arm: it waits for the process
        to park at its pause point, runs the peer process to completion and lets this one go on)."""
        proj = step.get("proj", "p0")
        if proj not in self.projects:
            self.reset_project(proj)
        lay = self.layout(proj, step["bp"])
        ws = lay["ws"]
        self.seq += 1
        trace = os.path.join(self.slot.dir, f"trace-{self.seq}.txt")
        if os.path.exists(trace):
            os.unlink(trace)
        bp_path = lay["bp_path"]
        if "app_version" in self.toggles.get(proj, ()) and proj != "ui":
            # the blueprint is serialised BY the application (cargo px rebuilds it before every pavexc
            # run), so after the version bump its component coordinates name the new version
            import re as _re
            bumped = os.path.join(self.slot.dir, f"bumped-{self.seq}.ron")
            with open(bp_path) as f:
                text = f.read()
            text = _re.sub(r'(package_name: "simapp",\s*package_version: ")0\.1\.0"', r'\g<1>0.1.1"', text)
            with open(bumped, "w") as f:
                f.write(text)
            bp_path = bumped
        if step.get("bp_locs") == "gone":
            # the same blueprint as serialised on another checkout: `file: "simapp/src/x.rs"` -> `file: "elsewhere/simapp/src/x.rs"`
            moved = os.path.join(self.slot.dir, f"moved-{self.seq}.ron")
            with open(bp_path) as f:
                text = f.read()
            with open(moved, "w") as f:
                f.write(text.replace('file: "', 'file: "elsewhere/'))
            bp_path = moved
        binary = self.w.pavexc
        par_trace = None
        if step.get("par_seed") is not None:
            # arm `par`: the verification build, its parallel sections under the seeded scheduler
            binary = getattr(self.w, "pavexc_verif", None)
            if not binary:
                raise HarnessError("a `par` step needs the --cfg pavex_verif build of pavexc")
            par_trace = os.path.join(self.slot.dir, f"par-{self.seq}.txt")
            if os.path.exists(par_trace):
                os.unlink(par_trace)
        argv = ["setarch", "x86_64", "-R", binary, "generate", "-b", bp_path, "-o",
                step.get("out", lay["out"]).replace("$WS", ws)]
        if step.get("diag"):
            argv += ["--diagnostics", lay["real"](step["diag"])]
        if step["mode"] == "check":
            argv += ["--check"]
        env = {
            "PATH": "/root/.cargo/bin:/usr/local/sbin:/usr/local/bin:/usr/sbin:/usr/bin:/sbin:/bin",
            "HOME": self.slot.home,
            "CARGO_HOME": "/root/.cargo",
            "RUSTUP_HOME": "/root/.rustup",
            "CARGO_TARGET_DIR": self.slot.target(proj),
            "CARGO_NET_OFFLINE": "true",
            "PAVEXC_DOCS_TOOLCHAIN": "nightly",
            "PAVEXC_COLOR": "never",
            "RAYON_NUM_THREADS": "1",
            "LANG": "C.UTF-8",
            "TERM": "dumb",
            "LD_PRELOAD": SHIM_SO,
            "VERIF_HASH_SEED": str(step["hash_seed"]),
            "VERIF_TRACE": trace,
        }
        if par_trace:
            env["VERIF_PAR_SEED"] = str(step["par_seed"])
            env["VERIF_PAR_TRACE"] = par_trace
        fault = step.get("fault")
        if fault:
            spec = f"{fault['kind']}@{fault['k']}"
            if fault["kind"] == "crash" and fault.get("prefix") is not None:
                spec += f":{fault['prefix']}"
            env["VERIF_FAULT"] = spec
            env["VERIF_FAULT_PATH"] = {"cache": "/.pavex/", "project": ws + "/"}[fault["phase"]]
        pause = step.get("pause")
        if pause:
            pdir = os.path.join(self.slot.dir, f"pause-{self.seq}")
            rmtree(pdir)
            os.makedirs(pdir)
            env["VERIF_FAULT"] = f"pause@{pause['k']}"
            env["VERIF_FAULT_PATH"] = {"cache": "/.pavex/", "project": ws + "/"}[pause["phase"]]
            env["VERIF_PAUSE_DIR"] = pdir
        before = self.snapshot(proj, lay)
        rows_before = None
        timeout = float(step.get("timeout", DEFAULT_TIMEOUT))
        # once an execution of this blueprint has hit the limit in this batch (that violation is
        # already on record), further executions of it get a fifth of the limit (at least 60 s, a
        # normal execution takes 2-40 s): a non-terminating pavexc must not cost hours
        with self.w.gold_lock:
            hung_before = self.w.timeouts_seen.get(step["bp"], 0)
        if hung_before and "timeout" not in step:
            timeout = max(60.0, DEFAULT_TIMEOUT / 5)
        # blueprints on which a pavexc is known (or was once known) not to terminate while its memory
        # grows without bound carry their own, much shorter limit in corpus.json (a healthy run takes
        # 2-3 s): the machine has no swap, sixteen of those running for ten minutes would exhaust it
        bp_limit = self.w.corpus["blueprints"].get(step.get("bp"), {}).get("max_wall_s")
        if bp_limit:
            timeout = min(timeout, float(bp_limit))
        out_p = os.path.join(self.slot.dir, f"out-{self.seq}.txt")
        err_p = os.path.join(self.slot.dir, f"err-{self.seq}.txt")
        t0 = time.time()
        with open(out_p, "wb") as fo, open(err_p, "wb") as fe:
            p = subprocess.Popen(argv, cwd=os.path.join(ws, step["cwd"]) if step.get("cwd") else ws, env=env, stdout=fo, stderr=fe, stdin=subprocess.DEVNULL,
                                 start_new_session=True)
            timed_out = [False]

            def killer():
                timed_out[0] = True
                try:
                    os.killpg(p.pid, signal.SIGKILL)
                except OSError:
                    pass

            timer = threading.Timer(timeout, killer)
            timer.start()
            try:
                if between is not None:
                    try:
                        between(p, env.get("VERIF_PAUSE_DIR"))
                    finally:
                        # whatever happened in between, never leave the process parked
                        if env.get("VERIF_PAUSE_DIR"):
                            open(os.path.join(env["VERIF_PAUSE_DIR"], "resume"), "w").close()
                _, status, ru = os.wait4(p.pid, 0)
            finally:
                timer.cancel()
            p.returncode = 0  # reaped by wait4
        wall = time.time() - t0
        if timed_out[0]:
            with self.w.gold_lock:
                self.w.timeouts_seen[step["bp"]] = self.w.timeouts_seen.get(step["bp"], 0) + 1
        if os.WIFSIGNALED(status):
            code, sig = None, os.WTERMSIG(status)
        else:
            code, sig = os.WEXITSTATUS(status), None
        after = self.snapshot(proj, lay)
        ops, fired = parse_trace(trace, self.slot, proj, lay["subs"])
        stderr = strip_ansi(open(err_p, "rb").read().decode(errors="replace"))
        stdout = strip_ansi(open(out_p, "rb").read().decode(errors="replace"))
        par_lines = []
        if par_trace and os.path.exists(par_trace):
            with open(par_trace) as f:
                par_lines = f.read().splitlines()
            os.unlink(par_trace)
        for f in (trace, out_p, err_p):
            try:
                os.unlink(f)
            except OSError:
                pass
        cache_bytes = sum(o[2] for o in ops if o[0] in ("pwrite", "write") and phase_of(o[1]) == "cache")
        # compact trace: every op outside the cache verbatim, cache ops as run-length counts
        compact = []
        for o in ops:
            ph = phase_of(o[1])
            if ph == "cache":
                key = ("cache:" + o[0] + ":" + os.path.basename(o[1]).split("db")[-1], )
                if compact and compact[-1][0] == key[0]:
                    compact[-1][1] += 1
                else:
                    compact.append([key[0], 1])
            else:
                compact.append([o[0], o[1], o[2], o[3]])
        th = sha256_bytes(json.dumps([list(o) for o in ops]).encode())[:16]
        rec = {
            "n": len(self.execs),
            "step": step,
            "proj": proj,
            "argv": argv,
            "env": {k: v for k, v in env.items() if k not in ("PATH", "LANG", "TERM")},
            "cwd": os.path.join(ws, step["cwd"]) if step.get("cwd") else ws,
            "exit": code,
            "signal": sig,
            "timed_out": timed_out[0],
            "limit_s": timeout,
            "wall_s": round(wall, 3),
            "cpu_s": round(ru.ru_utime + ru.ru_stime, 3),
            "stderr": stderr[-6000:],
            "stderr_len": len(stderr),
            "stdout_len": len(stdout),
            "n_errors": sum(1 for l in stderr.splitlines() if l.strip() == "ERROR:"),
            "documenting": sorted(set(l.split()[1] for l in stderr.splitlines()
                                      if l.strip().startswith("Documenting ") and len(l.split()) > 1)),
            "before": {k: v for k, v in before.items() if is_tracked(k)},
            "after": {k: v for k, v in after.items() if is_tracked(k)},
            "untracked_changed": sorted(k for k in set(before) | set(after)
                                        if not is_tracked(k) and before.get(k, [None])[0] != after.get(k, [None])[0]),
            "trace": compact if len(compact) <= 400 else compact[:200] + [["...", len(compact) - 400]] + compact[-200:],
            "trace_hash": th,
            "n_ops": len(ops),
            "project_write_ops": [[o[0], o[1], o[2], o[3]] for o in ops
                                  if o[0] in WRITE_CLASS and phase_of(o[1]) not in ("cache", "target")],
            "cache_bytes_written": cache_bytes,
            "count_matching": None,
            "fault_fired": fired,
            "toggles": sorted(self.toggles[proj]),
            "post_fault": self.post_fault,
            "golden_run": bool(self.h.get("golden")),
        }
        if par_trace:
            rec["par_seed"] = step["par_seed"]
            rec["par_trace_hash"] = sha256_bytes("\n".join(par_lines).encode())[:16]
            rec["par_decisions"] = sum(1 for l in par_lines if " decision " in l)
            rec["par_sections"] = [int(l.split(":")[1].split()[0]) for l in par_lines if l.startswith("section ") and " tasks" in l and " decision " not in l]
            rec["par_trace"] = par_lines[:80]
        if fault:
            phase = fault["phase"]
            rec["count_matching"] = sum(1 for o in ops if o[0] in WRITE_CLASS and
                                        (phase_of(o[1]) == "cache" if phase == "cache" else o[1].startswith("$WS/")))
        else:
            rec["w_cache"] = sum(1 for o in ops if o[0] in WRITE_CLASS and phase_of(o[1]) == "cache")
            rec["w_project"] = sum(1 for o in ops if o[0] in WRITE_CLASS and o[1].startswith("$WS/"))
        self.execs.append(rec)
        if fault and (fired or code not in (0, 1)):
            self.post_fault = True
        return rec

    # -------------------------------------------------------------- other primitive steps
    def seed_outdir_ui(self, step):
        """Output-directory states of a UI project: `upstream` (as committed upstream, possibly stale),
        `golden` (what the clean-world run wrote), `flipped` (one of the two with one byte of lib.rs changed)."""
        proj = "ui"
        if proj not in self.projects:
            self.reset_project(proj)
        lay = self.layout(proj, step["bp"])
        app = self.w.ui_app(step["bp"])
        state = step["state"]
        tdir = os.path.join(self.w.ui_template, UI.UI_REL, app["dir"])
        data = {}
        for rel in ("sdk/Cargo.toml", "sdk/src/lib.rs", "diag.dot"):
            src = os.path.join(tdir, {"sdk/Cargo.toml": "generated_app/Cargo.toml", "sdk/src/lib.rs": "generated_app/src/lib.rs",
                                      "diag.dot": "diagnostics.dot"}[rel])
            data[rel] = open(src, "rb").read() if os.path.exists(src) else None
        g = self.w.golden(step["bp"], [])
        if state in ("golden", "flipped") and g is not None and g["exit"] == 0:
            for rel in ("sdk/Cargo.toml", "sdk/src/lib.rs", "diag.dot"):
                data[rel] = self.w.golden_bytes(step["bp"], [], rel)
        elif state == "golden":
            self.notes.append(f"seed_outdir: no accepted golden for {step['bp']}; upstream state used")
        if state == "flipped" and data["sdk/src/lib.rs"]:
            b = bytearray(data["sdk/src/lib.rs"])
            cands = [i for i in range(len(b)) if chr(b[i]).isalnum()]
            if cands:
                i = cands[step.get("flip", {}).get("draw", 0) % len(cands)]
                b[i] = ord("7") if b[i] != ord("7") else ord("3")
            data["sdk/src/lib.rs"] = bytes(b)
        for rel, content in data.items():
            p = lay["real"](rel)
            if content is None:
                if os.path.exists(p):
                    os.unlink(p)
                continue
            os.makedirs(os.path.dirname(p), exist_ok=True)
            with open(p, "wb") as f:
                f.write(content)

    def seed_outdir(self, step):
        proj = step.get("proj", "p0")
        if proj == "ui":
            return self.seed_outdir_ui(step)
        if proj not in self.projects:
            self.reset_project(proj)
        ws = self.slot.proj(proj)
        sdk = os.path.join(ws, "sdk")
        state = step["state"]
        rmtree(sdk)
        root = os.path.join(ws, "Cargo.toml")
        if state == "none":
            with open(root, "wb") as f:
                f.write(self.w.base["Cargo.toml"])
            return
        toggles = step.get("toggles", [])
        g = self.w.golden(step["bp"], toggles)
        if g is None or g["exit"] != 0:
            self.notes.append(f"seed_outdir: no accepted golden for {step['bp']}/{state_key(toggles)}; left empty")
            with open(root, "wb") as f:
                f.write(self.w.base["Cargo.toml"])
            return
        os.makedirs(os.path.join(sdk, "src"))
        data = {rel: self.w.golden_bytes(step["bp"], toggles, rel) for rel in ("sdk/Cargo.toml", "sdk/src/lib.rs", "Cargo.toml")}
        if state == "broken_manifest":
            # a botched merge: conflict markers in the SDK manifest, and the member entry that the
            # first generation added to the workspace manifest is gone (so cargo does not load it)
            lines = data["sdk/Cargo.toml"].decode().split("\n")
            at = 1 + step.get("flip", {}).get("draw", 0) % max(1, len(lines) - 1)
            lines[at:at] = ["<<<<<<< HEAD", 'edition = "2021"', "=======", 'edition = "2024"', ">>>>>>> topic"]
            data["sdk/Cargo.toml"] = "\n".join(lines).encode()
            data["Cargo.toml"] = self.w.base["Cargo.toml"]
        if state == "crlf":
            data["sdk/src/lib.rs"] = data["sdk/src/lib.rs"].replace(b"\r\n", b"\n").replace(b"\n", b"\r\n")
        if state == "flipped":
            rel = step["flip"]["file"]
            if rel == "sdk/src/lib.rs":
                # change one ASCII letter/digit inside the file: still a file of the same length
                b = bytearray(data[rel])
                cands = [i for i in range(len(b)) if chr(b[i]).isalnum()]
                if cands:
                    i = cands[step["flip"]["draw"] % len(cands)]
                    b[i] = ord("7") if b[i] != ord("7") else ord("3")
                data[rel] = bytes(b)
            else:
                # the manifest must stay resolvable offline (`cargo metadata` runs before anything else):
                # drop one line of the [dependencies] table instead of corrupting a version
                lines = data[rel].decode().split("\n")
                start = lines.index("[dependencies]") if "[dependencies]" in lines else 0
                cands = [i for i in range(start + 1, len(lines)) if " = " in lines[i]]
                if cands:
                    del lines[cands[step["flip"]["draw"] % len(cands)]]
                data[rel] = "\n".join(lines).encode()
        for rel, content in data.items():
            with open(os.path.join(ws, rel), "wb") as f:
                f.write(content)
        if state == "readonly":
            if have_chattr():
                subprocess.run(["chattr", "+i", os.path.join(sdk, "src", "lib.rs")], capture_output=True)
                self.post_fault = True  # an unwritable output file is an I/O-failure arm
            else:
                self.notes.append("readonly: chattr unavailable, arm skipped")

    def unlock_outdir(self, step):
        if step.get("proj") == "ui":
            return
        ws = self.slot.proj(step.get("proj", "p0"))
        if have_chattr():
            subprocess.run(["chattr", "-R", "-i", os.path.join(ws, "sdk")], capture_output=True)

    def edit(self, step):
        proj = step.get("proj", "p0")
        if proj not in self.projects:
            self.reset_project(proj)
        name = step["edit"]
        if name in self.toggles[proj]:
            self.toggles[proj].discard(name)
        else:
            self.toggles[proj].add(name)
        changed = self._write_sources(proj, self.toggles[proj], only_changed=True)
        return changed

    def touch(self, step):
        proj = step.get("proj", "p0")
        if proj not in self.projects:
            self.reset_project(proj)
        p = os.path.join(self.slot.proj(proj), step["file"])
        now = time.time_ns()
        os.utime(p, ns=(now, now))

    def save(self):
        d = os.path.join(self.slot.dir, "saved")
        rmtree(d)
        os.makedirs(d)
        cp_a(self.slot.home, os.path.join(d, "home"))
        for pr in sorted(self.projects):
            cp_a(os.path.join(self.slot.dir, pr), os.path.join(d, pr))
        self.saved = {"toggles": {k: set(v) for k, v in self.toggles.items()}, "post_fault": self.post_fault,
                      "projects": set(self.projects)}

    def restore(self):
        if not self.saved:
            raise HarnessError("restore without save")
        d = os.path.join(self.slot.dir, "saved")
        rmtree(self.slot.home)
        cp_a(os.path.join(d, "home"), self.slot.home)
        for pr in sorted(self.saved["projects"]):
            rmtree(os.path.join(self.slot.dir, pr))
            cp_a(os.path.join(d, pr), os.path.join(self.slot.dir, pr))
            if pr != "ui":
                self._touch_sources(pr)
        self.toggles = {k: set(v) for k, v in self.saved["toggles"].items()}
        self.post_fault = self.saved["post_fault"]
        self.projects = set(self.saved["projects"])

    # -------------------------------------------------------------- composite steps
    def fault_exec(self, step):
        """profile -> restore -> same execution with the fault at a seeded k."""
        base = dict(step["exec"])
        self._prim({"op": "save"})
        prof = self._prim(dict(base, op="exec", label="profile"))
        w = prof["w_cache"] if step["phase"] == "cache" else prof["w_project"]
        self._prim({"op": "restore"})
        if w <= 0:
            self.notes.append(f"fault_exec: no matching write in phase {step['phase']}; fault not injected")
            return
        k = 1 + step["k_draw"] % w
        fault = {"kind": step["kind"], "phase": step["phase"], "k": k, "w": w}
        if step["kind"] == "crash":
            fault["prefix"] = step.get("prefix_draw", 0) % 97
        self._prim(dict(base, op="exec", fault=fault, label="faulted"))

    def overlap_exec(self, step):
        """Two pavexc processes on one cache, deterministically interleaved: process A (project p0) is
        parked by the shim at its k-th cache write, process B (the sibling project p1, same HOME) runs
        from start to end, then A goes on. k is seeded; exactly one process runs at any time."""
        base = dict(step["exec"])
        self._prim({"op": "save"})
        prof = self._prim(dict(base, op="exec", label="profile"))
        w = prof["w_cache"] if step["phase"] == "cache" else prof["w_project"]
        self._prim({"op": "restore"})
        if w <= 0:
            self.notes.append(f"overlap_exec: no write in phase {step['phase']}; the two runs happen one after the other")
            self._prim(dict(base, op="exec", label="A-unparked"))
            if step.get("peer_edit"):
                self._prim({"op": "edit", "proj": base.get("proj", "p0"), "edit": step["peer_edit"]})
            else:
                self._prim(dict(step["peer"], op="exec", label="B-after"))
            return
        k = 1 + step["k_draw"] % w
        at = {"op": "overlap_at", "phase": step["phase"], "k": k, "w": w, "exec": base}
        if step.get("peer_edit"):
            at["peer_edit"] = step["peer_edit"]
        else:
            at["peer"] = dict(step["peer"])
        return self.overlap_at(at)

    def overlap_at(self, step):
        """primitive form (explicit k): what replay files contain"""
        self.concrete.append(step)
        k, w = step["k"], step["w"]
        a_step = dict(step["exec"], op="exec", pause={"phase": step["phase"], "k": k, "w": w}, label=f"A-parked@{k}/{w}")

        def ended(pid):
            try:
                return os.waitid(os.P_PID, pid, os.WEXITED | os.WNOHANG | os.WNOWAIT) is not None
            except ChildProcessError:
                return True

        def between(proc, pdir):
            # wait until A is parked (or has ended without reaching its k-th write)
            reached = os.path.join(pdir, "reached")
            t_end = time.time() + 900
            while time.time() < t_end and not os.path.exists(reached) and not ended(proc.pid):
                time.sleep(0.01)
            parked = os.path.exists(reached)
            if step.get("peer_edit"):
                # "the editor saves a file while the compiler runs": the sources of the project change while
                # A sits between two of its cache writes (when A never reached its k-th write the edit comes
                # right after it: an ordinary edit between two runs)
                self.notes.append(f"edit {step['peer_edit']} applied while pavexc was parked at cache write {k}/{w}" if parked else f"edit {step['peer_edit']} applied after the run (it never reached write {k})")
                self.edit({"op": "edit", "proj": step["exec"].get("proj", "p0"), "edit": step["peer_edit"]})
                self.saved_mid_run = getattr(self, "saved_mid_run", 0) + (1 if parked else 0)
                return
            b = dict(step["peer"], op="exec", label="B-while-A-parked" if parked else "B-after-A", peer_parked=parked,
                     peer_same_project=step["peer"].get("proj", "p0") == step["exec"].get("proj", "p0"))
            if parked and "timeout" not in b:
                b["timeout"] = min(DEFAULT_TIMEOUT, 180.0)
            self.exec_pavexc(b)

        return self.exec_pavexc(a_step, between=between)

    def crash_enum(self, step):
        base = dict(step["exec"])
        self._prim({"op": "save"})
        prof = self._prim(dict(base, op="exec", label="profile"))
        w = prof["w_project"]
        for k in range(1, w + 1):
            self._prim({"op": "restore"})
            fault = {"kind": "crash", "phase": "project", "k": k, "w": w,
                     "prefix": (step.get("prefix_draw", 0) * k) % 211}
            self._prim(dict(base, op="exec", fault=fault, label=f"crash@{k}/{w}"))
            self._prim(dict(base, op="exec", mode="check", hash_seed=base["hash_seed"] + k, label="check-after-crash"))
            self._prim(dict(base, op="exec", mode="generate", hash_seed=base["hash_seed"] + 100 + k,
                            label="generate-after-crash"))

    # -------------------------------------------------------------- dispatcher
    def _prim(self, step):
        self.concrete.append(step)
        op = step["op"]
        if op == "exec":
            return self.exec_pavexc(step)
        if op == "edit":
            return self.edit(step)
        if op == "touch":
            return self.touch(step)
        if op == "evict":
            n = evict(self.slot.home, step["what"], step.get("name"))
            self.notes.append(f"evict {step['what']} {step.get('name')}: {n} rows")
            return n
        if op == "seed_outdir":
            return self.seed_outdir(step)
        if op == "unlock_outdir":
            return self.unlock_outdir(step)
        if op == "save":
            return self.save()
        if op == "restore":
            return self.restore()
        raise HarnessError(f"unknown step {op}")

    def run(self):
        t0 = time.time()
        self.reset_home(self.h.get("init_cache", "warm"))
        init_toggles = self.h.get("init_toggles", {})
        projs = {s.get("proj", "p0") for s in self._all_steps() if s.get("op") in ("exec", "seed_outdir", "edit", "touch",
                                                                                   "unlock_outdir")}
        if "p0" in projs or not projs:
            self.reset_project("p0", init_toggles.get("p0", ()))
        if "p1" in projs:
            self.reset_project("p1", init_toggles.get("p1", ()))
        if "ui" in projs:
            self.reset_project("ui")
        for step in self.h["steps"]:
            op = step["op"]
            if op == "fault_exec":
                self.fault_exec(step)
            elif op == "overlap_exec":
                self.overlap_exec(step)
            elif op == "overlap_at":
                self.overlap_at(step)
            elif op == "crash_enum":
                self.crash_enum(step)
            else:
                self._prim(step)
        # leave nothing immutable behind
        for pr in self.projects:
            self.unlock_outdir({"proj": pr})
        return {
            "id": self.h["id"],
            "arm": self.h.get("arm"),
            "slot": self.slot.idx,
            "init_cache": self.h.get("init_cache", "warm"),
            "init_toggles": {k: sorted(v) for k, v in init_toggles.items()},
            "steps": self.h["steps"],
            "concrete_steps": self.concrete,
            "execs": self.execs,
            "notes": self.notes,
            "wall_s": round(time.time() - t0, 2),
        }

    def _all_steps(self):
        for s in self.h["steps"]:
            yield s
            if "exec" in s:
                yield s["exec"]
            if "peer" in s:
                yield s["peer"]
