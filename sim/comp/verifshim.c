/*
 * verifshim — LD_PRELOAD library for `pavexc` processes driven by compsim (C09, C10).
 *
 * Active ONLY in a process whose /proc/self/comm is "pavexc" (or $VERIF_COMM); cargo, rustup,
 * rustc and rustdoc children inherit LD_PRELOAD but are left completely untouched.
 *
 * Environment:
 *   VERIF_HASH_SEED=<u64>   getrandom() is answered by a SplitMix64 stream seeded with this value
 *                           (std RandomState, ahash; ASLR must be off too: `setarch -R`).
 *   VERIF_TRACE=<file>      append one line per intercepted file operation:
 *                             <op> <path> <size> <ret>
 *                           ops: open_creat (open that creates the file), open_trunc (open that
 *                           truncates a non-empty file), open_wr (any other open for writing),
 *                           write pwrite writev fsync fdatasync rename ftruncate unlink mkdir.
 *                           For rename the path is "<old>-><new>".
 *   VERIF_FAULT=crash@K[:P] at the K-th (1-based) write-class call whose path contains
 *                           $VERIF_FAULT_PATH: for write/pwrite perform only the first P bytes
 *                           (default: half) — a torn write — then _exit(137); for every other
 *                           op exit before performing it.
 *   VERIF_FAULT=eio@K       fail that call with EIO      (nothing is written)
 *   VERIF_FAULT=enospc@K    fail that call with ENOSPC   (nothing is written)
 *   VERIF_FAULT=pause@K     not a fault: at that call the process creates $VERIF_PAUSE_DIR/reached,
 *                           waits until $VERIF_PAUSE_DIR/resume exists, and then performs the call
 *                           normally. The driver runs ANOTHER pavexc process to completion in the
 *                           meantime: one process runs at a time, so the interleaving of the two on
 *                           the shared cache is decided by K alone and replays exactly.
 *   VERIF_FAULT_PATH=<sub>  substring a path must contain to be counted (default: every path).
 *   A fired fault is recorded in the trace as: FAULT <kind> <K> <op> <path> <size> <prefix>
 *
 * Write-class (counted for faults) = open_creat, open_trunc, write, pwrite, writev, fsync,
 * fdatasync, rename, ftruncate, unlink of an existing file. mkdir and open_wr are traced, never
 * counted.
 * Only absolute paths outside /dev, /proc and /sys are considered (pipes, sockets, ttys are not).
 */
#define _GNU_SOURCE
#include <dlfcn.h>
#include <errno.h>
#include <fcntl.h>
#include <stdarg.h>
#include <stdatomic.h>
#include <stdint.h>
#include <stdio.h>
#include <stdlib.h>
#include <string.h>
#include <sys/stat.h>
#include <sys/syscall.h>
#include <sys/types.h>
#include <sys/uio.h>
#include <time.h>
#include <unistd.h>

static int g_active = 0;
static int g_trace_fd = -1;
static int g_have_seed = 0;
static _Atomic uint64_t g_prng;
static int g_fault_kind = 0; /* 0 none, 1 crash, 2 eio, 3 enospc, 4 pause */
static char g_pause_dir[512];
static long g_fault_k = 0;
static long g_fault_prefix = -1;
static char g_fault_path[512];
static _Atomic long g_count = 0;

#define REAL(name) \
    static __typeof__(name) *real = NULL; \
    if (!real) real = (__typeof__(name) *)dlsym(RTLD_NEXT, #name)

static void trace_line(const char *buf, size_t n) {
    if (g_trace_fd >= 0) syscall(SYS_write, g_trace_fd, buf, n);
}

static void trace_op(const char *op, const char *path, long size, long ret) {
    if (g_trace_fd < 0) return;
    char buf[1400];
    int n = snprintf(buf, sizeof buf, "%s %s %ld %ld\n", op, path, size, ret);
    if (n > 0) trace_line(buf, (size_t)n < sizeof buf ? (size_t)n : sizeof buf - 1);
}

__attribute__((constructor)) static void shim_init(void) {
    char comm[64] = {0};
    int fd = (int)syscall(SYS_open, "/proc/self/comm", O_RDONLY);
    if (fd >= 0) {
        long n = syscall(SYS_read, fd, comm, sizeof comm - 1);
        syscall(SYS_close, fd);
        if (n > 0 && comm[n - 1] == '\n') comm[n - 1] = 0;
    }
    const char *want = getenv("VERIF_COMM");
    if (!want) want = "pavexc";
    if (strcmp(comm, want) != 0) return;
    g_active = 1;
    const char *s = getenv("VERIF_HASH_SEED");
    if (s && *s) {
        g_have_seed = 1;
        g_prng = strtoull(s, NULL, 10) ^ 0x9E3779B97F4A7C15ULL;
    }
    const char *t = getenv("VERIF_TRACE");
    if (t && *t) {
        g_trace_fd = (int)syscall(SYS_open, t, O_WRONLY | O_CREAT | O_APPEND | O_CLOEXEC, 0644);
        if (g_trace_fd >= 0 && g_trace_fd < 200) {
            /* move it out of the way of low fd numbers the program may rely on */
            int hi = (int)syscall(SYS_fcntl, g_trace_fd, F_DUPFD_CLOEXEC, 900);
            if (hi >= 0) {
                syscall(SYS_close, g_trace_fd);
                g_trace_fd = hi;
            }
        }
    }
    const char *f = getenv("VERIF_FAULT");
    if (f && *f) {
        const char *at = strchr(f, '@');
        if (at) {
            if (!strncmp(f, "crash", 5)) g_fault_kind = 1;
            else if (!strncmp(f, "eio", 3)) g_fault_kind = 2;
            else if (!strncmp(f, "enospc", 6)) g_fault_kind = 3;
            else if (!strncmp(f, "pause", 5)) g_fault_kind = 4;
            g_fault_k = strtol(at + 1, NULL, 10);
            const char *c = strchr(at, ':');
            if (c) g_fault_prefix = strtol(c + 1, NULL, 10);
        }
    }
    const char *p = getenv("VERIF_FAULT_PATH");
    if (p) {
        strncpy(g_fault_path, p, sizeof g_fault_path - 1);
    }
    const char *pd = getenv("VERIF_PAUSE_DIR");
    if (pd) {
        strncpy(g_pause_dir, pd, sizeof g_pause_dir - 1);
    }
}

static int path_of_fd(int fd, char *out, size_t cap) {
    char link[64];
    snprintf(link, sizeof link, "/proc/self/fd/%d", fd);
    long n = syscall(SYS_readlink, link, out, cap - 1);
    if (n <= 0) return 0;
    out[n] = 0;
    return 1;
}

static int interesting(const char *p) {
    if (!p || p[0] != '/') return 0;
    if (!strncmp(p, "/dev/", 5) || !strncmp(p, "/proc/", 6) || !strncmp(p, "/sys/", 5)) return 0;
    return 1;
}

static void abs_path(int dirfd, const char *p, char *out, size_t cap) {
    if (!p) {
        out[0] = 0;
        return;
    }
    if (p[0] == '/') {
        snprintf(out, cap, "%s", p);
        return;
    }
    char base[1024];
    if (dirfd == AT_FDCWD) {
        if (syscall(SYS_getcwd, base, sizeof base) <= 0) base[0] = 0;
    } else if (!path_of_fd(dirfd, base, sizeof base)) {
        base[0] = 0;
    }
    snprintf(out, cap, "%s/%s", base, p);
}

/* Decide what happens to this write-class call.
 * returns 0 = proceed normally, 1 = crash (caller performs the torn prefix first), 2 = fail, errno set */
static int fault_gate(const char *op, const char *path, long size, long *prefix_out) {
    if (!g_fault_kind) return 0;
    if (g_fault_path[0] && !strstr(path, g_fault_path)) return 0;
    long k = atomic_fetch_add(&g_count, 1) + 1;
    if (k != g_fault_k) return 0;
    long prefix = 0;
    if (g_fault_kind == 1 && size > 0) {
        prefix = g_fault_prefix >= 0 ? g_fault_prefix : size / 2;
        if (prefix > size) prefix = size;
    }
    if (g_trace_fd >= 0) {
        char buf[1400];
        const char *kind = g_fault_kind == 1 ? "crash" : g_fault_kind == 2 ? "eio" : g_fault_kind == 3 ? "enospc" : "pause";
        int n = snprintf(buf, sizeof buf, "FAULT %s %ld %s %s %ld %ld\n", kind, k, op, path, size, prefix);
        if (n > 0) trace_line(buf, (size_t)n < sizeof buf ? (size_t)n : sizeof buf - 1);
    }
    if (g_fault_kind == 1) {
        *prefix_out = prefix;
        return 1;
    }
    if (g_fault_kind == 4) {
        /* park here until the driver says go on (raw syscalls: nothing of this is traced) */
        if (g_pause_dir[0]) {
            char a[600], b[600];
            snprintf(a, sizeof a, "%s/reached", g_pause_dir);
            snprintf(b, sizeof b, "%s/resume", g_pause_dir);
            int fd = (int)syscall(SYS_open, a, O_WRONLY | O_CREAT | O_CLOEXEC, 0644);
            if (fd >= 0) syscall(SYS_close, fd);
            struct timespec ts = {0, 5 * 1000 * 1000};
            for (long i = 0; i < 200L * 3600; i++) { /* one hour at most */
                if (syscall(SYS_access, b, F_OK) == 0) break;
                syscall(SYS_nanosleep, &ts, NULL);
            }
        }
        return 0;
    }
    errno = g_fault_kind == 2 ? EIO : ENOSPC;
    return 2;
}

static void die(void) {
    syscall(SYS_exit_group, 137);
    for (;;) {}
}

/* ------------------------------------------------------------------ entropy */

ssize_t getrandom(void *buf, size_t len, unsigned int flags) {
    if (!g_active || !g_have_seed) {
        return syscall(SYS_getrandom, buf, len, flags);
    }
    unsigned char *p = buf;
    size_t i = 0;
    while (i < len) {
        uint64_t z = atomic_fetch_add(&g_prng, 0x9E3779B97F4A7C15ULL) + 0x9E3779B97F4A7C15ULL;
        z = (z ^ (z >> 30)) * 0xBF58476D1CE4E5B9ULL;
        z = (z ^ (z >> 27)) * 0x94D049BB133111EBULL;
        z = z ^ (z >> 31);
        for (int b = 0; b < 8 && i < len; b++, i++) p[i] = (unsigned char)(z >> (8 * b));
    }
    return (ssize_t)len;
}

int getentropy(void *buf, size_t len) {
    if (len > 256) {
        errno = EIO;
        return -1;
    }
    return getrandom(buf, len, 0) == (ssize_t)len ? 0 : -1;
}

/* ------------------------------------------------------------------ data writes */

ssize_t write(int fd, const void *buf, size_t count) {
    REAL(write);
    char path[1024];
    if (!g_active || fd == g_trace_fd || !path_of_fd(fd, path, sizeof path) || !interesting(path))
        return real(fd, buf, count);
    long prefix = 0;
    int g = fault_gate("write", path, (long)count, &prefix);
    if (g == 1) {
        if (prefix > 0) real(fd, buf, (size_t)prefix);
        die();
    }
    if (g == 2) {
        trace_op("write", path, (long)count, -1);
        return -1;
    }
    ssize_t r = real(fd, buf, count);
    trace_op("write", path, (long)count, (long)r);
    return r;
}

static ssize_t do_pwrite(ssize_t (*real)(int, const void *, size_t, off_t), int fd, const void *buf,
                         size_t count, off_t off) {
    char path[1024];
    if (!g_active || !path_of_fd(fd, path, sizeof path) || !interesting(path))
        return real(fd, buf, count, off);
    long prefix = 0;
    int g = fault_gate("pwrite", path, (long)count, &prefix);
    if (g == 1) {
        if (prefix > 0) real(fd, buf, (size_t)prefix, off);
        die();
    }
    if (g == 2) {
        trace_op("pwrite", path, (long)count, -1);
        return -1;
    }
    ssize_t r = real(fd, buf, count, off);
    trace_op("pwrite", path, (long)count, (long)r);
    return r;
}

ssize_t pwrite(int fd, const void *buf, size_t count, off_t off) {
    REAL(pwrite);
    return do_pwrite(real, fd, buf, count, off);
}

ssize_t pwrite64(int fd, const void *buf, size_t count, off_t off) {
    static ssize_t (*real)(int, const void *, size_t, off_t) = NULL;
    if (!real) real = (ssize_t(*)(int, const void *, size_t, off_t))dlsym(RTLD_NEXT, "pwrite64");
    return do_pwrite(real, fd, buf, count, off);
}

ssize_t writev(int fd, const struct iovec *iov, int iovcnt) {
    REAL(writev);
    char path[1024];
    if (!g_active || fd == g_trace_fd || !path_of_fd(fd, path, sizeof path) || !interesting(path))
        return real(fd, iov, iovcnt);
    long total = 0;
    for (int i = 0; i < iovcnt; i++) total += (long)iov[i].iov_len;
    long prefix = 0;
    int g = fault_gate("writev", path, total, &prefix);
    if (g == 1) {
        if (prefix > 0 && iovcnt > 0) {
            size_t first = iov[0].iov_len < (size_t)prefix ? iov[0].iov_len : (size_t)prefix;
            syscall(SYS_write, fd, iov[0].iov_base, first);
        }
        die();
    }
    if (g == 2) {
        trace_op("writev", path, total, -1);
        return -1;
    }
    ssize_t r = real(fd, iov, iovcnt);
    trace_op("writev", path, total, (long)r);
    return r;
}

/* ------------------------------------------------------------------ metadata ops on fds */

#define FD_OP(NAME, LABEL)                                                        \
    int NAME(int fd) {                                                            \
        REAL(NAME);                                                               \
        char path[1024];                                                          \
        if (!g_active || !path_of_fd(fd, path, sizeof path) || !interesting(path)) \
            return real(fd);                                                      \
        long prefix = 0;                                                          \
        int g = fault_gate(LABEL, path, 0, &prefix);                              \
        if (g == 1) die();                                                        \
        if (g == 2) {                                                             \
            trace_op(LABEL, path, 0, -1);                                         \
            return -1;                                                            \
        }                                                                         \
        int r = real(fd);                                                         \
        trace_op(LABEL, path, 0, r);                                              \
        return r;                                                                 \
    }
FD_OP(fsync, "fsync")
FD_OP(fdatasync, "fdatasync")

static int do_ftruncate(int (*real)(int, off_t), int fd, off_t len) {
    char path[1024];
    if (!g_active || !path_of_fd(fd, path, sizeof path) || !interesting(path)) return real(fd, len);
    long prefix = 0;
    int g = fault_gate("ftruncate", path, (long)len, &prefix);
    if (g == 1) die();
    if (g == 2) {
        trace_op("ftruncate", path, (long)len, -1);
        return -1;
    }
    int r = real(fd, len);
    trace_op("ftruncate", path, (long)len, r);
    return r;
}

int ftruncate(int fd, off_t len) {
    REAL(ftruncate);
    return do_ftruncate(real, fd, len);
}

int ftruncate64(int fd, off_t len) {
    static int (*real)(int, off_t) = NULL;
    if (!real) real = (int (*)(int, off_t))dlsym(RTLD_NEXT, "ftruncate64");
    return do_ftruncate(real, fd, len);
}

/* ------------------------------------------------------------------ path ops */

static int do_rename(int olddir, const char *old, int newdir, const char *new, int which, unsigned flags) {
    static int (*r_rename)(const char *, const char *) = NULL;
    static int (*r_renameat)(int, const char *, int, const char *) = NULL;
    static int (*r_renameat2)(int, const char *, int, const char *, unsigned) = NULL;
    if (!r_rename) r_rename = (int (*)(const char *, const char *))dlsym(RTLD_NEXT, "rename");
    if (!r_renameat) r_renameat = (int (*)(int, const char *, int, const char *))dlsym(RTLD_NEXT, "renameat");
    if (!r_renameat2)
        r_renameat2 = (int (*)(int, const char *, int, const char *, unsigned))dlsym(RTLD_NEXT, "renameat2");
#define CALL_REAL()                                                      \
    (which == 0 ? r_rename(old, new)                                     \
                : which == 1 ? r_renameat(olddir, old, newdir, new)      \
                             : r_renameat2(olddir, old, newdir, new, flags))
    if (!g_active) return CALL_REAL();
    char a[1024], b[1024], both[2100];
    abs_path(olddir, old, a, sizeof a);
    abs_path(newdir, new, b, sizeof b);
    if (!interesting(a) && !interesting(b)) return CALL_REAL();
    snprintf(both, sizeof both, "%s->%s", a, b);
    long prefix = 0;
    int g = fault_gate("rename", both, 0, &prefix);
    if (g == 1) die();
    if (g == 2) {
        trace_op("rename", both, 0, -1);
        return -1;
    }
    int r = CALL_REAL();
    trace_op("rename", both, 0, r);
    return r;
#undef CALL_REAL
}

int rename(const char *old, const char *new) { return do_rename(AT_FDCWD, old, AT_FDCWD, new, 0, 0); }
int renameat(int od, const char *old, int nd, const char *new) { return do_rename(od, old, nd, new, 1, 0); }
int renameat2(int od, const char *old, int nd, const char *new, unsigned flags) {
    return do_rename(od, old, nd, new, 2, flags);
}

static int do_unlink(int dirfd, const char *p, int flags, int at) {
    static int (*r_unlink)(const char *) = NULL;
    static int (*r_unlinkat)(int, const char *, int) = NULL;
    if (!r_unlink) r_unlink = (int (*)(const char *))dlsym(RTLD_NEXT, "unlink");
    if (!r_unlinkat) r_unlinkat = (int (*)(int, const char *, int))dlsym(RTLD_NEXT, "unlinkat");
#define CALL_REAL() (at ? r_unlinkat(dirfd, p, flags) : r_unlink(p))
    if (!g_active) return CALL_REAL();
    char a[1024];
    abs_path(dirfd, p, a, sizeof a);
    if (!interesting(a)) return CALL_REAL();
    /* An unlink of a file that does not exist changes nothing: traced, never counted. */
    struct stat st;
    if (syscall(SYS_newfstatat, AT_FDCWD, a, &st, AT_SYMLINK_NOFOLLOW) != 0) {
        int r = CALL_REAL();
        return r;
    }
    long prefix = 0;
    int g = fault_gate("unlink", a, 0, &prefix);
    if (g == 1) die();
    if (g == 2) {
        trace_op("unlink", a, 0, -1);
        return -1;
    }
    int r = CALL_REAL();
    trace_op("unlink", a, 0, r);
    return r;
#undef CALL_REAL
}

int unlink(const char *p) { return do_unlink(AT_FDCWD, p, 0, 0); }
int unlinkat(int dirfd, const char *p, int flags) { return do_unlink(dirfd, p, flags, 1); }

int mkdir(const char *p, mode_t mode) {
    REAL(mkdir);
    int r = real(p, mode);
    if (g_active) {
        int e = errno;
        char a[1024];
        abs_path(AT_FDCWD, p, a, sizeof a);
        if (interesting(a) && r == 0) trace_op("mkdir", a, 0, r);
        errno = e;
    }
    return r;
}

/* ------------------------------------------------------------------ opens */

static int do_open(int which, int dirfd, const char *p, int flags, mode_t mode) {
    static int (*r_open)(const char *, int, ...) = NULL;
    static int (*r_open64)(const char *, int, ...) = NULL;
    static int (*r_openat)(int, const char *, int, ...) = NULL;
    static int (*r_openat64)(int, const char *, int, ...) = NULL;
    if (!r_open) r_open = (int (*)(const char *, int, ...))dlsym(RTLD_NEXT, "open");
    if (!r_open64) r_open64 = (int (*)(const char *, int, ...))dlsym(RTLD_NEXT, "open64");
    if (!r_openat) r_openat = (int (*)(int, const char *, int, ...))dlsym(RTLD_NEXT, "openat");
    if (!r_openat64) r_openat64 = (int (*)(int, const char *, int, ...))dlsym(RTLD_NEXT, "openat64");
#define CALL_REAL()                                                   \
    (which == 0 ? r_open(p, flags, mode)                              \
                : which == 1 ? r_open64(p, flags, mode)               \
                             : which == 2 ? r_openat(dirfd, p, flags, mode) \
                                          : r_openat64(dirfd, p, flags, mode))
    int acc = flags & O_ACCMODE;
    int writes = (acc == O_WRONLY || acc == O_RDWR);
    int modifies = (flags & O_TRUNC) != 0 || (flags & O_CREAT) != 0;
    if (!g_active || (!writes && !modifies) || (flags & O_DIRECTORY)) return CALL_REAL();
    char a[1024];
    abs_path(dirfd, p, a, sizeof a);
    if (!interesting(a)) return CALL_REAL();
    /* O_CREAT on an existing file without O_TRUNC modifies nothing. */
    struct stat st;
    int exists = syscall(SYS_newfstatat, AT_FDCWD, a, &st, 0) == 0;
    int effective = ((flags & O_TRUNC) && exists && st.st_size > 0) || ((flags & O_CREAT) && !exists);
    if (effective) {
        long prefix = 0;
        const char *label = exists ? "open_trunc" : "open_creat";
        int g = fault_gate(label, a, exists ? (long)st.st_size : 0, &prefix);
        if (g == 1) die();
        if (g == 2) {
            trace_op(label, a, 0, -1);
            return -1;
        }
        int r = CALL_REAL();
        int e = errno;
        trace_op(label, a, exists ? (long)st.st_size : 0, r >= 0 ? 0 : -1);
        errno = e;
        return r;
    }
    int r = CALL_REAL();
    int e = errno;
    trace_op("open_wr", a, 0, r >= 0 ? 0 : -1);
    errno = e;
    return r;
#undef CALL_REAL
}

static mode_t mode_arg(int flags, va_list ap) {
    if ((flags & O_CREAT) || (flags & O_TMPFILE) == O_TMPFILE) return (mode_t)va_arg(ap, int);
    return 0;
}

int open(const char *p, int flags, ...) {
    va_list ap;
    va_start(ap, flags);
    mode_t m = mode_arg(flags, ap);
    va_end(ap);
    return do_open(0, AT_FDCWD, p, flags, m);
}

int open64(const char *p, int flags, ...) {
    va_list ap;
    va_start(ap, flags);
    mode_t m = mode_arg(flags, ap);
    va_end(ap);
    return do_open(1, AT_FDCWD, p, flags, m);
}

int openat(int dirfd, const char *p, int flags, ...) {
    va_list ap;
    va_start(ap, flags);
    mode_t m = mode_arg(flags, ap);
    va_end(ap);
    return do_open(2, dirfd, p, flags, m);
}

int openat64(int dirfd, const char *p, int flags, ...) {
    va_list ap;
    va_start(ap, flags);
    mode_t m = mode_arg(flags, ap);
    va_end(ap);
    return do_open(3, dirfd, p, flags, m);
}

int creat(const char *p, mode_t mode) { return do_open(0, AT_FDCWD, p, O_CREAT | O_WRONLY | O_TRUNC, mode); }
