"""compsim — oracles. Exactly DESIGN §5.1 items 1-5 (C09) and §5.2 invariants 1-4 (C10).

evaluate(world, run) -> (violations, probes, observations)
A violation is a dict: property, invariant, signature, exec (index), detail, observed, expected.
"""
from cs_util import *  # noqa: F401,F403
from cs_world import file_class, phase_of, DEFAULT_TIMEOUT

CORPUS_BPS = load_corpus()["blueprints"]

SDK_FILES = ("sdk/Cargo.toml", "sdk/src/lib.rs")
AW_FILES = ("sdk/Cargo.toml", "sdk/src/lib.rs", "Cargo.toml")  # what AppWriter persists


def _sha(snap, rel):
    v = snap.get(rel)
    return v[0] if v else None


def _golden_sha(g, rel):
    return g["files"].get(rel) if g else None


def edit_class(world, names):
    by = {e["name"]: e["class"] for e in world.edits}
    classes = sorted({by.get(n, "edit") for n in names})
    return "+".join(classes) if classes else "edit"


def evaluate(world, run):
    viols = []
    probes = {}
    obs = {}

    def probe(name, n=1):
        probes[name] = probes.get(name, 0) + n

    def observe(name, n=1):
        obs[name] = obs.get(name, 0) + n

    def viol(prop, inv, sig, ex, detail, observed=None, expected=None):
        viols.append({"property": prop, "invariant": inv, "signature": sig, "exec": ex["n"], "detail": detail,
                      "observed": observed or {}, "expected": expected or {}, "history": run["id"],
                      "hash_seed": ex["step"].get("hash_seed"), "bp": ex["step"].get("bp")})

    # source states seen so far per project, for the "stale" classification: list of toggle sets
    seen_states = {"p0": [], "p1": [], "ui": []}
    crashed_before = False
    for ex in run["execs"]:
        step = ex["step"]
        proj = ex["proj"]
        bp = step["bp"]
        tog = ex["toggles"]
        if not seen_states[proj] or seen_states[proj][-1] != tog:
            seen_states[proj].append(tog)
        g = world.golden(bp, tog)
        fault = step.get("fault")
        faulted = bool(fault)
        fired = ex["fault_fired"]
        relaxed = faulted or ex["post_fault"]  # fault / crash / unwritable-output arms
        mode = step["mode"]
        # the step is set up so that the PERSIST phase fails (e.g. an unparsable SDK manifest on disk):
        # termination, clean exit and failure atomicity of the SDK apply; no reference verdict/bytes do
        expect_fail = step.get("expect_fail")
        if step.get("bp_locs"):
            # another serialisation of the blueprint (unreadable source locations): whether a diagnostic
            # needs a snippet decides the verdict, so there is no reference verdict and no golden bytes
            expect_fail = expect_fail or "moved-blueprint"
            probe("moved_blueprint_exit_%s" % ex["exit"])
        before, after = ex["before"], ex["after"]
        code, sig = ex["exit"], ex["signal"]
        # `ref: first` (output directory reached through a symbolic link): the paths written into the
        # generated manifest legitimately go through the link, so the reference bytes are what the
        # FIRST successful generation of this history wrote, not the clean-world golden
        selfref = step.get("ref") == "first"
        first_ok = None
        if selfref:
            for other in run["execs"]:
                if (other["n"] < ex["n"] and other["step"].get("ref") == "first" and other["step"]["bp"] == bp
                        and other["step"]["mode"] == "generate" and other["exit"] == 0 and other["toggles"] == tog):
                    first_ok = other
                    break

        # ---------------------------------------------------------------- bookkeeping probes
        if proj == "ui":
            app = world.ui_app(bp)
            probe("ui_application_execution")
            if mode == "generate" and code in (0, 1) and sig is None:
                # upstream's own expectation is an independent reference; C09/C10 do not say WHICH verdict
                # is right, so a disagreement is an observation
                if (code == 0) != (app["expect"] == "accept"):
                    observe("ui_verdict_differs_from_upstream_expectation:" + app["dir"])
                else:
                    probe("ui_verdict_matches_upstream_expectation")
        if fired:
            probe(f"fault_fired_{fired['kind']}_{(fault or step.get('pause') or {}).get('phase')}")
        if step.get("pause"):
            probe("process_parked_mid_run" if fired else "pause_point_not_reached")
        if step.get("peer_parked"):
            probe("peer_process_ran_while_other_parked")
        if ex["n_errors"] >= 2 and code == 1:
            probe("error_path_with_2plus_diagnostics")
        if code == 1 and any(r in before for r in SDK_FILES) and mode == "generate" and not relaxed:
            probe("pre_existing_sdk_present_at_failure")
        if mode == "check" and code == 1 and "is not up-to-date" in ex["stderr"]:
            probe("check_found_outdated")
        if any(o[0] in ("write", "open_trunc") and o[1] in ("$WS/sdk/src/lib.rs", "$WS/sdk/Cargo.toml")
               and ("sdk/" + o[1].split("/sdk/")[1]) in before for o in ex["project_write_ops"]):
            probe("sdk_file_rewritten")
        if ex.get("par_seed") is not None:
            probe("par_executions")
            probe("par_scheduler_decisions", ex.get("par_decisions", 0))
            if any(n >= 2 for n in ex.get("par_sections", [])):
                probe("par_section_with_several_tasks")
            if any(n >= 2 for n in ex.get("par_sections", [])) and ex["n_errors"] >= 1:
                probe("par_error_diagnostics_next_to_parallel_indexing")
        if ex["cache_bytes_written"] > 50_000_000:
            probe("toolchain_crates_indexed_from_scratch")
        elif ex["cache_bytes_written"] > 500_000:
            probe("third_party_docs_inserted_in_cache")

        # ---------------------------------------------------------------- C09
        # 1. termination
        if ex["timed_out"] and step.get("peer_parked"):
            # Another process sits suspended in the middle of a write to the cache (or to the project) and
            # holds its locks for as long as it is suspended. The unchanged tree gives up on the cache after
            # SQLite's busy timeout and either goes on without it or fails with "database is locked"
            # within seconds; waiting for ever on somebody else's lock is a hang.
            viol("C09", "terminates", "blocked-forever-while-another-process-is-suspended", ex,
                 f"killed after {ex['wall_s']} s: the process never gave up waiting for a lock held by a suspended pavexc process")
            continue
        if ex["timed_out"]:
            viol("C09", "terminates", "wall-clock-timeout" + (f":{step['bp']}" if CORPUS_BPS.get(step.get("bp"), {}).get("known_hang") else ""), ex,
                 f"killed after {ex['wall_s']} s wall-clock (limit {ex.get('limit_s', step.get('timeout', DEFAULT_TIMEOUT))} s)")
            continue
        if not relaxed:
            # 2. clean exit
            if sig is not None:
                viol("C09", "clean-exit", f"killed-by-signal-{sig}", ex, f"pavexc was terminated by signal {sig}")
            elif code not in (0, 1):
                viol("C09", "clean-exit", f"exit-status-{code}", ex, f"pavexc exited with status {code}")
            if "panicked" in ex["stderr"]:
                # one class per panic SITE: a shared signature would hide a second, unrelated panic behind
                # the first one that is reported (F-C09k sat behind F-C09e-h for one run)
                viol("C09", "clean-exit", "panic-on-stderr" + _panic_site(ex["stderr"]), ex,
                     "stderr contains a panic report: " + _first_line_with(ex["stderr"], "panicked"))
            # 3. failure atomicity
            persist_failed = ("Failed to persist the generated code to disk" in ex["stderr"]
                              or "Failed to persist diagnostic information to disk" in ex["stderr"])
            if expect_fail:
                probe("persist_phase_failure" if (code == 1 and persist_failed) else f"expect_fail_exit_{code}")
            if code != 0 or sig is not None:
                if ex["stderr_len"] == 0:
                    viol("C09", "failure-atomic", "failed-without-diagnostic", ex, "non-zero exit with empty stderr")
                elif code == 1 and ex["n_errors"] == 0 and not _has_plain_error(ex["stderr"]):
                    # "exits non-zero having printed at least one ERROR diagnostic": warnings, progress
                    # lines and notes do not tell the user why the run failed
                    viol("C09", "failure-atomic", "failed-without-error-diagnostic", ex,
                         "exit 1 but stderr holds no ERROR report (only: " +
                         ", ".join(sorted({l.strip() for l in ex["stderr"].splitlines() if l.strip().endswith(":") and l.strip().isupper()})[:4]) + ")")
                for rel in sorted(set(before) | set(after)):
                    cls = file_class(rel)
                    if cls == "diagnostics-file":
                        continue
                    if cls == "root-manifest" and persist_failed:
                        # C09 speaks of the SDK. Registering the SDK as a workspace member is the first
                        # step of the persist phase; when a later step of that phase fails, the edited
                        # workspace manifest stays behind. Recorded, not flagged.
                        if rel in before and before[rel][0] != after.get(rel, [None])[0]:
                            observe("persist_failure_left_workspace_manifest_edited")
                        continue
                    if rel in before and rel not in after:
                        viol("C09", "failure-atomic", f"failed-run-deleted-{cls}", ex, f"{rel} was deleted by a failing run",
                             {rel: None}, {rel: before[rel][0]})
                    elif rel in before and (before[rel][0] != after[rel][0]):
                        viol("C09", "failure-atomic", f"failed-run-modified-{cls}", ex,
                             f"{rel} was rewritten by a run that exited {code}", {rel: after[rel][0]}, {rel: before[rel][0]})
                    elif rel in before and before[rel][1] != after[rel][1]:
                        viol("C09", "failure-atomic", f"failed-run-touched-{cls}", ex,
                             f"mtime of {rel} changed in a run that exited {code}", {rel: after[rel][1]}, {rel: before[rel][1]})
                    elif rel not in before:
                        # C09 speaks of an SDK that was already on disk; a new file is only recorded
                        observe("failed_run_created_" + cls)
            # 4. success writes the SDK — the SDK of THIS blueprint: exit 0 with another blueprint's (or a
            # damaged) SDK left on disk has not "written the SDK"
            if code == 0 and sig is None:
                for rel in SDK_FILES:
                    if rel not in after:
                        viol("C09", "success-writes-sdk", f"success-without-{file_class(rel)}", ex,
                             f"exit 0 but {rel} does not exist")
                    elif (mode == "generate" and not selfref and g is not None and g["exit"] == 0 and not expect_fail
                          and _golden_sha(g, rel) is not None and _sha(after, rel) != _golden_sha(g, rel)
                          and _sha(after, rel) == _sha(before, rel)):
                        viol("C09", "success-writes-sdk", f"success-left-stale-{file_class(rel)}", ex,
                             f"exit 0 but {rel} was left as it was before the run, which is not what generate({bp}) "
                             f"writes in a clean world", {rel: _sha(after, rel)}, {rel: _golden_sha(g, rel)})
            # 5. verdict stability (reference = golden run: clean world, hash seed 0)
            # a peer process parked in the middle of its persist phase IN THE SAME PROJECT leaves the
            # workspace in a transient state (the SDK is a workspace member whose manifest is not written
            # yet): failing on it with a diagnostic is a verdict about that state, not about the blueprint
            # Likewise a peer parked in the middle of a cache write holds SQLite's write lock for as long as
            # it is parked: "database is locked" after the busy timeout is a verdict about the environment.
            # Clean exit, a diagnostic and failure atomicity are still required of such a run.
            half_persisted = bool(step.get("peer_parked"))
            if half_persisted and code == 1:
                observe("peer_failed_on_half_persisted_workspace" if step.get("peer_same_project") else
                        ("peer_failed_database_locked" if "database is locked" in ex["stderr"] else "peer_failed_while_other_parked"))
            if (g is not None and g["exit"] in (0, 1) and mode == "generate" and sig is None and code in (0, 1)
                    and code != g["exit"] and not expect_fail and not (half_persisted and code == 1)):
                viol("C09", "verdict-stable", f"verdict-flip-{g['exit']}-to-{code}", ex,
                     f"generate({bp}) exited {g['exit']} in the clean world (hash seed 0) and {code} here "
                     f"(hash seed {step['hash_seed']}); stderr: {ex['stderr'][-300:]!r}")
            if g is not None and mode == "check" and g["exit"] == 1 and code == 0:
                viol("C09", "verdict-stable", "check-accepts-rejected-blueprint", ex,
                     f"--check exited 0 for {bp}, which generate rejects")
        else:
            # observations only (C09 promises nothing under I/O faults)
            if faulted and fired:
                torn = [rel for rel in AW_FILES if _sha(after, rel) not in (None, _sha(before, rel), _golden_sha(g, rel))]
                if torn:
                    observe(f"torn_{file_class(torn[0])}_after_{fired['kind']}")
                if sig is not None and not (fired["kind"] == "crash"):
                    observe(f"signal_{sig}_under_{fired['kind']}")
                if "panicked" in ex["stderr"]:
                    observe(f"panic_under_{fired['kind']}")
                if fired["kind"] in ("eio", "enospc"):
                    observe(f"exit_{code}_under_{fired['kind']}_{fault['phase']}")

        # ---------------------------------------------------------------- C10
        accepted = g is not None and g["exit"] == 0 and not expect_fail
        if g is None:
            observe("no_golden_for_state")
        crash_exec = faulted and fired and fired["kind"] == "crash"
        inv_gold = "after-fault" if relaxed else "golden-bytes"
        if accepted and mode == "generate" and code == 0 and sig is None and not crash_exec and selfref:
            probe("generated_through_symlinked_output_dir")
            if first_ok is not None:
                for rel in AW_FILES:
                    if _sha(after, rel) != _sha(first_ok["after"], rel):
                        viol("C10", "golden-bytes", f"second-run-through-symlink-differs-{file_class(rel)}", ex,
                             f"the same command on unchanged inputs left other bytes in {rel} than its first run",
                             {rel: _sha(after, rel)}, {rel: _sha(first_ok["after"], rel)})
        elif accepted and mode == "generate" and code == 0 and sig is None and not crash_exec:
            # 1 (and 4): exit 0 => exactly the golden bytes
            want = list(AW_FILES) + ([step["diag"]] if step.get("diag") else [])
            for rel in want:
                exp = _golden_sha(g, "diag.dot" if rel in ("diag.dot", "diag-new.dot") else rel)
                got = _sha(after, rel)
                if exp is None or got == exp:
                    continue
                sig_name = _classify_wrong_bytes(world, run, ex, rel, got, seen_states[proj], relaxed)
                viol("C10", inv_gold, sig_name, ex,
                     f"exit 0 but {rel} differs from the golden bytes of ({bp}, {state_key(tog)}); hash seed "
                     f"{step['hash_seed']}, cache start {run['init_cache']}", {rel: got}, {rel: exp})
            if relaxed:
                if all(_sha(after, rel) == _golden_sha(g, rel) for rel in AW_FILES):
                    probe("healed_after_fault")
        if relaxed and not faulted and mode == "generate" and code != 0:
            observe("not_healed_after_fault")
        # 2. idempotent re-run
        if accepted and mode == "generate" and not relaxed and code == 0:
            want = list(AW_FILES) + ([step["diag"]] if step.get("diag") else [])
            if selfref:
                unchanged_inputs = first_ok is not None and all(_sha(before, rel) == _sha(first_ok["after"], rel) for rel in want)
            else:
                unchanged_inputs = all(
                    _sha(before, rel) == _golden_sha(g, "diag.dot" if rel.endswith(".dot") else rel) for rel in want)
            if unchanged_inputs:
                probe("rerun_on_unchanged_inputs")
                for rel in want:
                    if before[rel][0] != _sha(after, rel):
                        continue  # reported by invariant 1
                    if before[rel][1] != after[rel][1]:
                        viol("C10", "idempotent-rerun", f"rerun-touched-{file_class(rel)}", ex,
                             f"inputs unchanged, yet the mtime of {rel} moved", {rel: after[rel][1]}, {rel: before[rel][1]})
                    w = [o for o in ex["project_write_ops"] if o[1] == "$WS/" + rel]
                    if w:
                        viol("C10", "idempotent-rerun", f"rerun-wrote-{file_class(rel)}", ex,
                             f"inputs unchanged, yet the op trace shows {w[0][0]} on {rel}", {"ops": w[:4]}, {"ops": []})
        # 3. --check
        if mode == "check" and not faulted:
            inv = "after-fault" if relaxed else "check-mode"
            if accepted and sig is None and code in (0, 1):
                # "a normal run would change nothing": the SDK files and, when --diagnostics is given,
                # the diagnostics file (a normal run would create / rewrite it)
                chk_files = list(AW_FILES) + ([step["diag"]] if step.get("diag") else [])

                def _gold(rel):
                    if selfref:
                        return _sha(first_ok["after"], rel) if first_ok is not None else None
                    return _golden_sha(g, "diag.dot" if rel.endswith(".dot") else rel)

                up_to_date = all(_sha(before, rel) == _gold(rel) for rel in chk_files)
                if code == 0 and not up_to_date:
                    diff = [rel for rel in chk_files if _sha(before, rel) != _gold(rel)]
                    earlier = []
                    for other in run["execs"]:
                        if other["n"] < ex["n"] and other["toggles"] != tog and other["toggles"] not in earlier:
                            earlier.append(other["toggles"])  # incl. the sibling project's source state
                    stale = _stale_class(world, bp, tog, diff[0], _sha(before, diff[0]), earlier)
                    name = ("check-passes-on-" + stale) if stale else ("check-passes-on-outdated-" + file_class(diff[0]))
                    viol("C10", inv, name, ex,
                         f"--check exited 0 although {diff} differ from the golden bytes",
                         {r: _sha(before, r) for r in diff}, {r: _gold(r) for r in diff})
                if code == 1 and up_to_date and not relaxed:
                    viol("C10", inv, "check-fails-on-up-to-date-sdk", ex,
                         f"--check exited 1 although all files equal the golden bytes; stderr: {ex['stderr'][-300:]!r}")
            if not relaxed:
                # never modifies a file: op trace and snapshots
                reported = set()
                for o in ex["project_write_ops"]:
                    rel = o[1][len("$WS/"):] if o[1].startswith("$WS/") else o[1]
                    if file_class(rel) in reported:
                        continue
                    reported.add(file_class(rel))
                    viol("C10", "check-mode", f"check-mode-writes-{file_class(rel)}", ex,
                         f"--check performed {o[0]} on {rel} ({o[2]} bytes)", {"op": o}, {"op": None})
                for rel in sorted(set(before) | set(after)):
                    if before.get(rel, [None])[0] != after.get(rel, [None])[0]:
                        if any(v["exec"] == ex["n"] and v["invariant"] == "check-mode" and
                               v["signature"] == f"check-mode-writes-{file_class(rel)}" for v in viols):
                            continue
                        viol("C10", "check-mode", f"check-mode-changes-{file_class(rel)}", ex,
                             f"{rel} differs after a --check run", {rel: _sha(after, rel)}, {rel: _sha(before, rel)})
                for rel in ex["untracked_changed"]:
                    if file_class(rel) == "lockfile":
                        continue  # written by the `cargo metadata` child, not by pavexc
                    viol("C10", "check-mode", f"check-mode-changes-{file_class(rel)}", ex, f"{rel} differs after a --check run")
    return viols, probes, obs


def _has_plain_error(stderr):
    """An error that did not go through the diagnostic reporter (anyhow's `{e:?}`: I/O failures of the
    persist phase, cargo metadata failures, ...)."""
    for l in stderr.splitlines():
        t = l.strip()
        # miette draws "×" in front of an error (or severity-less) report, "⚠" in front of a warning,
        # "☞" in front of an advice — also when the report carries a code instead of the "ERROR:" header
        if t.startswith(("Error", "error:", "Failed", "Caused by", "×")):
            return True
    return False


def _first_line_with(text, needle):
    for l in text.splitlines():
        if needle in l:
            return l.strip()[:300]
    return ""


def _panic_site(stderr):
    """' @ <file>.rs:<line>' of the first panic report on stderr ('in compiler/…/router.rs, line 240'), or ''."""
    import re
    m = re.search(r"^in (\S+?\.rs), line (\d+)", stderr, re.M)
    if not m:
        m = re.search(r"panicked at (\S+?\.rs):(\d+)", stderr)
    return f" @ {os.path.basename(m.group(1))}:{m.group(2)}" if m else ""


def _classify_wrong_bytes(world, run, ex, rel, got, states, relaxed):
    """Name the failing pattern. Stale = the bytes are the golden bytes of an EARLIER source state of
    this history (or of the sibling project's state) for the same blueprint."""
    cls = file_class(rel)
    bp = ex["step"]["bp"]
    cur = ex["toggles"]
    extra = [s for s in states if s != cur]
    for other in run["execs"]:
        if other["n"] < ex["n"] and other["toggles"] != cur and other["toggles"] not in extra:
            extra.append(other["toggles"])  # e.g. the sibling project's source state (shared cache rows)
    stale = _stale_class(world, bp, cur, rel, got, extra)
    if stale:
        return ("after-fault-" if relaxed else "") + stale
    if relaxed:
        return f"wrong-{cls}-after-fault"
    if ex["before"].get(rel) and ex["before"][rel][0] == got:
        return f"outdated-{cls}-left-in-place"
    return f"{cls}-differs-from-golden"


def _stale_class(world, bp, cur, rel, got, extra=()):
    """If `got` equals the golden bytes of the same blueprint under another source state — the current
    one with some edits missing, or a state seen earlier in the history — the output is STALE with
    respect to the edits in the difference: returns 'stale-cache-after-<edit classes>'."""
    if got is None:
        return None
    grel = "diag.dot" if rel.endswith(".dot") else rel
    cur = sorted(cur)
    cands = []
    n = len(cur)
    for mask in range(1, 1 << n):  # every state obtained by forgetting a non-empty subset of the edits
        cands.append([t for i, t in enumerate(cur) if not (mask >> i) & 1])
    cands.sort(key=lambda s: -len(s))
    for s in extra:
        if sorted(s) not in cands and sorted(s) != cur:
            cands.append(sorted(s))
    for s in cands:
        og = world.golden_or_compute(bp, s)
        if og and og["files"].get(grel) == got:
            return "stale-cache-after-" + edit_class(world, sorted(set(s) ^ set(cur)))
    return None
