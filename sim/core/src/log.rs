use std::fmt::Write;

/// Event log of one run. Takes no PRNG draws and reads no clock: events carry the simulator's
/// global sequence number and whatever simulated time the caller formats into them.
///
/// Two hashes are maintained: `hash` over every event (used to prove determinism and to compare
/// a replay with the original) and `sched_hash` over the events flagged schedule-relevant (used
/// as the measure of "distinct interleavings").
pub struct EventLog {
    pub seq: u64,
    pub hash: u64,
    pub sched_hash: u64,
    pub keep: bool,
    pub lines: Vec<String>,
    buf: String,
}

const P: u64 = 0x100000001b3;

impl EventLog {
    pub fn new(keep: bool) -> Self {
        EventLog {
            seq: 0,
            hash: 0xcbf29ce484222325,
            sched_hash: 0xcbf29ce484222325,
            keep,
            lines: Vec::new(),
            buf: String::new(),
        }
    }

    fn absorb(h: &mut u64, s: &str) {
        for b in s.as_bytes() {
            *h ^= *b as u64;
            *h = h.wrapping_mul(P);
        }
        *h ^= 0xff;
        *h = h.wrapping_mul(P);
    }

    /// Record an event; returns its sequence number.
    pub fn ev(&mut self, args: std::fmt::Arguments<'_>) -> u64 {
        self.push(args, false)
    }

    /// Record a schedule-relevant event (also feeds `sched_hash`).
    pub fn sched(&mut self, args: std::fmt::Arguments<'_>) -> u64 {
        self.push(args, true)
    }

    fn push(&mut self, args: std::fmt::Arguments<'_>, sched: bool) -> u64 {
        self.seq += 1;
        self.buf.clear();
        let _ = self.buf.write_fmt(args);
        Self::absorb(&mut self.hash, &self.buf);
        if sched {
            Self::absorb(&mut self.sched_hash, &self.buf);
        }
        if self.keep {
            self.lines.push(format!("{:>5} {}", self.seq, self.buf));
        }
        self.seq
    }
}
