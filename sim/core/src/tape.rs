use crate::Rng;

/// The choice tape: every decision taken *while a run proceeds* (which simulated thread runs
/// next, how many others run at a preemption point, which waiter gets the lock …) is one draw.
///
/// * generation mode: the draw comes from the PRNG and is recorded;
/// * replay mode: the draw is read back; past the end of the tape the answer is 0 (the first
///   alternative) and an out-of-range entry is reduced modulo `n`, so *every* tape is a valid
///   schedule — which is what lets the shrinker delete and zero entries freely.
#[derive(Debug)]
pub struct Tape {
    src: Src,
    /// What was actually answered, in order (already reduced below `n`).
    pub rec: Vec<u32>,
}

#[derive(Debug)]
enum Src {
    Gen(Rng),
    Replay { tape: Vec<u32>, pos: usize },
}

impl Tape {
    pub fn generate(rng: Rng) -> Self {
        Tape {
            src: Src::Gen(rng),
            rec: Vec::new(),
        }
    }

    pub fn replay(tape: Vec<u32>) -> Self {
        Tape {
            src: Src::Replay { tape, pos: 0 },
            rec: Vec::new(),
        }
    }

    /// A value in `0..n`.
    pub fn choose(&mut self, n: u32) -> u32 {
        let v = if n <= 1 {
            // Still consumes a slot, so that tapes stay aligned when `n` varies between runs.
            if let Src::Replay { pos, .. } = &mut self.src {
                *pos += 1;
            }
            0
        } else {
            match &mut self.src {
                Src::Gen(rng) => rng.below(n as u64) as u32,
                Src::Replay { tape, pos } => {
                    let v = tape.get(*pos).copied().unwrap_or(0) % n;
                    *pos += 1;
                    v
                }
            }
        };
        self.rec.push(v);
        v
    }

    /// True with probability `num/den`; `false` is the "0" answer, so shrinking drives towards
    /// "the unusual thing does not happen".
    pub fn chance(&mut self, num: u32, den: u32) -> bool {
        self.choose(den) >= den - num
    }

    pub fn consumed(&self) -> usize {
        self.rec.len()
    }
}
