/// xoshiro256** seeded through splitmix64. No dependency, no global state.
#[derive(Clone, Debug)]
pub struct Rng {
    s: [u64; 4],
}

fn splitmix(x: &mut u64) -> u64 {
    *x = x.wrapping_add(0x9E3779B97F4A7C15);
    let mut z = *x;
    z = (z ^ (z >> 30)).wrapping_mul(0xBF58476D1CE4E5B9);
    z = (z ^ (z >> 27)).wrapping_mul(0x94D049BB133111EB);
    z ^ (z >> 31)
}

impl Rng {
    pub fn new(seed: u64) -> Self {
        let mut x = seed;
        let s = [
            splitmix(&mut x),
            splitmix(&mut x),
            splitmix(&mut x),
            splitmix(&mut x),
        ];
        Rng { s }
    }

    /// An independent generator derived from this one.
    pub fn fork(&mut self) -> Rng {
        Rng::new(self.next_u64())
    }

    pub fn next_u64(&mut self) -> u64 {
        let r = self.s[1].wrapping_mul(5).rotate_left(7).wrapping_mul(9);
        let t = self.s[1] << 17;
        self.s[2] ^= self.s[0];
        self.s[3] ^= self.s[1];
        self.s[1] ^= self.s[2];
        self.s[0] ^= self.s[3];
        self.s[2] ^= t;
        self.s[3] = self.s[3].rotate_left(45);
        r
    }

    /// Uniform in `0..n` (`n == 0` gives 0).
    pub fn below(&mut self, n: u64) -> u64 {
        if n <= 1 {
            return 0;
        }
        // Multiply-shift; bias is irrelevant here.
        ((self.next_u64() as u128 * n as u128) >> 64) as u64
    }

    /// Uniform in `lo..=hi`.
    pub fn range(&mut self, lo: u64, hi: u64) -> u64 {
        debug_assert!(lo <= hi);
        lo + self.below(hi - lo + 1)
    }

    pub fn usize(&mut self, lo: usize, hi: usize) -> usize {
        self.range(lo as u64, hi as u64) as usize
    }

    /// True with probability `num/den`.
    pub fn chance(&mut self, num: u64, den: u64) -> bool {
        self.below(den) < num
    }

    pub fn pick<'a, T>(&mut self, xs: &'a [T]) -> &'a T {
        &xs[self.below(xs.len() as u64) as usize]
    }

    /// Weighted pick: returns the index.
    pub fn weighted(&mut self, weights: &[u32]) -> usize {
        let total: u64 = weights.iter().map(|w| *w as u64).sum();
        let mut x = self.below(total.max(1));
        for (i, w) in weights.iter().enumerate() {
            if x < *w as u64 {
                return i;
            }
            x -= *w as u64;
        }
        weights.len() - 1
    }

    pub fn shuffle<T>(&mut self, xs: &mut [T]) {
        for i in (1..xs.len()).rev() {
            let j = self.below(i as u64 + 1) as usize;
            xs.swap(i, j);
        }
    }

    pub fn bytes(&mut self, n: usize) -> Vec<u8> {
        let mut v = Vec::with_capacity(n);
        while v.len() < n {
            let x = self.next_u64().to_le_bytes();
            let k = (n - v.len()).min(8);
            v.extend_from_slice(&x[..k]);
        }
        v
    }
}
