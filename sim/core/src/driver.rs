//! Batch driver shared by every in-process simulator.
//!
//! `check`  : coordinator — spawns worker processes (`batch`), a determinism re-run, merges the
//!            partial results, matches violations against `/verif/known_findings.jsonl`, writes
//!            `/verif/evidence/<ID>.json`, prints `VIOLATION …` / `KNOWN-FINDING: …` lines and
//!            chooses the exit code (0 held, 1 violation, 2 harness error).
//! `batch`  : runs a slice of the run indices in this process, shrinks what fails, writes replay
//!            files and a partial-result file.
//! `replay` : re-executes one replay file in a fresh process.
//!
//! Parallelism is by *process*, never by thread: the simulated wall clock and the entropy
//! source are process-global seams (libc symbols defined by the harness binary), and a fresh
//! process per slice also makes "replay in a fresh process" the normal mode of operation.

use std::collections::{BTreeMap, BTreeSet};
use std::io::Write as _;
use std::path::{Path, PathBuf};
use std::time::Instant;

use serde::de::DeserializeOwned;
use serde::{Deserialize, Serialize};
use serde_json::{Value, json};

use crate::{EventLog, Rng, Tape, mix};

#[derive(Clone, Copy, Debug, PartialEq, Eq)]
pub enum Tier {
    Quick,
    Thorough,
}

impl Tier {
    pub fn as_str(self) -> &'static str {
        match self {
            Tier::Quick => "quick",
            Tier::Thorough => "thorough",
        }
    }
    pub fn parse(s: &str) -> Tier {
        match s {
            "quick" => Tier::Quick,
            "thorough" => Tier::Thorough,
            _ => harness_error(&format!("unknown tier {s}")),
        }
    }
}

#[derive(Clone, Debug, Serialize, Deserialize, PartialEq, Eq, PartialOrd, Ord)]
pub struct Violation {
    pub property: String,
    /// Name of the invariant of the oracle that failed.
    pub invariant: String,
    /// The specific failing pattern (operation shape / call site), stable across seeds; this is
    /// what `known_findings.jsonl` matches on, together with property and invariant.
    pub signature: String,
    /// Free text for the human reader.
    pub detail: String,
}

pub struct RunOut {
    pub violations: Vec<Violation>,
    pub log: EventLog,
    /// Probe and fault counters of this run (how often each thing *actually happened*).
    pub counters: BTreeMap<String, u64>,
    /// Simulated time covered by the run, nanoseconds.
    pub sim_ns: u64,
    /// Abstract-state tags reached (sim-specific measure of reach).
    pub states: Vec<String>,
    /// Did the run hit at least one probe that makes it non-trivial by the sim's stated rule?
    pub nontrivial: bool,
}

impl RunOut {
    pub fn new(log: EventLog) -> Self {
        RunOut {
            violations: Vec::new(),
            log,
            counters: BTreeMap::new(),
            sim_ns: 0,
            states: Vec::new(),
            nontrivial: false,
        }
    }
    pub fn count(&mut self, k: &str, n: u64) {
        if n > 0 {
            *self.counters.entry(k.to_string()).or_insert(0) += n;
        }
    }
}

pub struct SimMeta {
    /// How cases are generated and what makes one non-trivial / distinct.
    pub rule: String,
    pub real: Vec<String>,
    pub stub: Vec<String>,
    pub assumptions: Vec<String>,
    /// Counters that are fault kinds (reported under `faults_fired`); the rest are probes.
    pub fault_counters: Vec<String>,
    /// Probes expected to be reachable: a zero in `thorough` is reported as a coverage gap.
    pub expected_probes: Vec<String>,
}

pub trait Sim {
    type Script: Serialize + DeserializeOwned + Clone + Send + Sync;
    fn name() -> &'static str;
    fn properties() -> &'static [&'static str];
    fn runs(property: &str, tier: Tier) -> u64;
    fn meta(property: &str) -> SimMeta;
    fn generate(rng: &mut Rng, tier: Tier, property: &str) -> Self::Script;
    fn run(script: &Self::Script, tape: &mut Tape, keep_log: bool) -> RunOut;
    /// Candidate simplifications of a script, simplest first.
    fn shrink(script: &Self::Script) -> Vec<Self::Script>;
}

/// Every run executes on a fresh OS thread: thread-local PRNG state inside dependencies
/// (`rand::thread_rng`, std's `RandomState` keys) is then initialised from the entropy seam at
/// the start of the run instead of depending on which runs this process executed before.
pub fn run_isolated<S: Sim>(script: &S::Script, tape: &mut Tape, keep_log: bool) -> RunOut {
    std::thread::scope(|sc| {
        std::thread::Builder::new()
            .stack_size(8 << 20)
            .spawn_scoped(sc, || S::run(script, tape, keep_log))
            .expect("spawn run thread")
            .join()
            .unwrap_or_else(|_| harness_error("a simulator run panicked (harness bug)"))
    })
}

pub fn harness_error(msg: &str) -> ! {
    eprintln!("HARNESS-ERROR: {msg}");
    std::process::exit(2)
}

#[derive(Clone, Debug, Default)]
pub struct BatchArgs {
    pub property: String,
    pub tier: Option<Tier>,
    pub seed: u64,
    pub runs: u64,
    pub offset: u64,
    pub stride: u64,
    pub out: PathBuf,
    pub det_k: u64,
    pub no_shrink: bool,
}

#[derive(Serialize, Deserialize, Default)]
struct Partial {
    runs: u64,
    nontrivial_runs: u64,
    sim_ns: u64,
    wall_s: f64,
    counters: BTreeMap<String, u64>,
    states: BTreeSet<String>,
    violations: Vec<FoundViolation>,
    other_property_violations: BTreeMap<String, u64>,
    samples: Vec<Value>,
    det_hashes: BTreeMap<u64, String>,
    hashes_file: String,
    shrink_runs: u64,
    #[serde(default)]
    further_violating_runs: u64,
}

#[derive(Serialize, Deserialize, Clone, Debug)]
struct FoundViolation {
    #[serde(flatten)]
    v: Violation,
    seed: u64,
    index: u64,
    replay: String,
    occurrences: u64,
    replay_exact: bool,
}

#[derive(Serialize, Deserialize)]
struct ReplayFile<S> {
    sim: String,
    property: String,
    invariant: String,
    signature: String,
    detail: String,
    seed: u64,
    index: u64,
    tier: String,
    original_ops_hint: String,
    script: S,
    tape: Vec<u32>,
    log_hash: String,
    log: Vec<String>,
    /// the tape is to be regenerated from (seed, index) — used for cases that killed the worker
    /// process before a tape could be recorded
    #[serde(default)]
    regenerate_tape: bool,
}

const DEFAULT_SEED: u64 = 20260924;

fn verif_dir() -> PathBuf {
    std::env::var("VERIF_DIR").map(PathBuf::from).unwrap_or_else(|_| PathBuf::from("/verif"))
}

fn arg_val(args: &[String], key: &str) -> Option<String> {
    args.iter().position(|a| a == key).and_then(|i| args.get(i + 1).cloned())
}

pub fn main_for<S: Sim>(args: &[String]) -> ! {
    let cmd = args.first().map(|s| s.as_str()).unwrap_or("");
    match cmd {
        "check" => check::<S>(&args[1..]),
        "batch" => {
            let a = &args[1..];
            let b = BatchArgs {
                property: arg_val(a, "--property").unwrap_or_else(|| S::properties()[0].to_string()),
                tier: Some(Tier::parse(&arg_val(a, "--tier").unwrap_or("quick".into()))),
                seed: arg_val(a, "--seed").and_then(|s| s.parse().ok()).unwrap_or(DEFAULT_SEED),
                runs: arg_val(a, "--runs").and_then(|s| s.parse().ok()).unwrap_or(100),
                offset: arg_val(a, "--offset").and_then(|s| s.parse().ok()).unwrap_or(0),
                stride: arg_val(a, "--stride").and_then(|s| s.parse().ok()).unwrap_or(1),
                out: PathBuf::from(arg_val(a, "--out").unwrap_or_else(|| harness_error("--out missing"))),
                det_k: arg_val(a, "--det-k").and_then(|s| s.parse().ok()).unwrap_or(0),
                no_shrink: a.iter().any(|x| x == "--no-shrink"),
            };
            batch::<S>(&b);
            std::process::exit(0)
        }
        "replay" => replay::<S>(&args[1..]),
        "show" => {
            // debugging aid: run one case of a batch with the log kept and print it
            let a = &args[1..];
            let property = arg_val(a, "--property").unwrap_or_else(|| S::properties()[0].to_string());
            let tier = Tier::parse(&arg_val(a, "--tier").unwrap_or("quick".into()));
            let seed = arg_val(a, "--seed").and_then(|s| s.parse().ok()).unwrap_or(DEFAULT_SEED);
            let index: u64 = arg_val(a, "--index").and_then(|s| s.parse().ok()).unwrap_or(0);
            // optional warm-up: the runs a batch worker would have executed before this one
            let stride: u64 = arg_val(a, "--stride").and_then(|s| s.parse().ok()).unwrap_or(0);
            if stride > 0 {
                let mut j = index % stride;
                while j < index {
                    let (sc, tr) = one_case::<S>(seed, j, tier, &property);
                    let mut tp = Tape::generate(tr);
                    let _ = run_isolated::<S>(&sc, &mut tp, false);
                    j += stride;
                }
            }
            let (script, tape_rng) = one_case::<S>(seed, index, tier, &property);
            let mut tape = Tape::generate(tape_rng);
            let out = run_isolated::<S>(&script, &mut tape, true);
            println!("script: {}", serde_json::to_string(&script).unwrap());
            for l in &out.log.lines {
                println!("{l}");
            }
            for v in &out.violations {
                println!("violation: property={} invariant={} signature={} :: {}", v.property, v.invariant, v.signature, v.detail);
            }
            println!("counters: {:?}", out.counters);
            println!("log_hash={:016x} tape_len={}", out.log.hash, tape.rec.len());
            std::process::exit(0)
        }
        _ => harness_error("usage: <sim> check|batch|replay …"),
    }
}

fn one_case<S: Sim>(seed: u64, index: u64, tier: Tier, property: &str) -> (S::Script, Rng) {
    let mut rng = Rng::new(mix(seed, S::name(), index));
    let mut gen_rng = rng.fork();
    let tape_rng = rng.fork();
    let script = S::generate(&mut gen_rng, tier, property);
    (script, tape_rng)
}

fn has_target(out: &RunOut, property: &str, invariant: &str) -> bool {
    out.violations.iter().any(|v| v.property == property && v.invariant == invariant)
}

/// Greedy shrinker over (script, tape): keeps a candidate only when the same violation class
/// (property + invariant) reappears.
fn shrink_case<S: Sim>(
    mut script: S::Script,
    mut tape: Vec<u32>,
    property: &str,
    invariant: &str,
    budget_runs: &mut u64,
) -> (S::Script, Vec<u32>) {
    let started = Instant::now();
    let mut try_case = |s: &S::Script, t: &[u32], budget: &mut u64| -> Option<Vec<u32>> {
        if *budget == 0 || started.elapsed().as_secs() > 60 {
            return None;
        }
        *budget -= 1;
        let mut tp = Tape::replay(t.to_vec());
        let out = run_isolated::<S>(s, &mut tp, false);
        if has_target(&out, property, invariant) { Some(tp.rec) } else { None }
    };
    loop {
        let mut progressed = false;
        // 1. script simplifications
        'outer: loop {
            let cands = S::shrink(&script);
            for cand in &cands {
                if let Some(rec) = try_case(cand, &tape, budget_runs) {
                    script = cand.clone();
                    tape = rec;
                    progressed = true;
                    continue 'outer;
                }
            }
            // A simpler script usually shifts every later choice, so the old tape no longer
            // steers it into the failure: search a bounded number of fresh schedules for it
            // (seeds derived from the candidate's position: still a pure function of the case).
            for (ci, cand) in cands.iter().enumerate() {
                for attempt in 0..48u64 {
                    if *budget_runs == 0 || started.elapsed().as_secs() > 60 {
                        break;
                    }
                    *budget_runs -= 1;
                    let mut tp = Tape::generate(Rng::new(mix(0x5eed ^ attempt, "shrink", ci as u64 ^ (tape.len() as u64) << 20)));
                    let out = run_isolated::<S>(cand, &mut tp, false);
                    if has_target(&out, property, invariant) {
                        script = cand.clone();
                        tape = tp.rec;
                        progressed = true;
                        continue 'outer;
                    }
                }
            }
            break;
        }
        // 2. tape: truncate
        let mut n = tape.len();
        while n > 0 {
            let half = n / 2;
            let cand: Vec<u32> = tape[..half].to_vec();
            if let Some(rec) = try_case(&script, &cand, budget_runs) {
                if rec.len() < tape.len() || rec != tape {
                    // accepted only if it is a real simplification
                    let simpler = rec.iter().filter(|x| **x != 0).count()
                        < tape.iter().filter(|x| **x != 0).count()
                        || rec.len() < tape.len();
                    if simpler {
                        tape = rec;
                        progressed = true;
                        n = tape.len();
                        continue;
                    }
                }
            }
            break;
        }
        // 3. tape: zero blocks of decreasing size
        let mut block = (tape.len() / 2).max(1);
        loop {
            let mut i = 0;
            while i < tape.len() {
                let end = (i + block).min(tape.len());
                if tape[i..end].iter().any(|x| *x != 0) {
                    let mut cand = tape.clone();
                    for x in &mut cand[i..end] {
                        *x = 0;
                    }
                    if let Some(rec) = try_case(&script, &cand, budget_runs) {
                        let simpler = rec.iter().filter(|x| **x != 0).count()
                            < tape.iter().filter(|x| **x != 0).count();
                        if simpler {
                            tape = rec;
                            progressed = true;
                        }
                    }
                }
                i = end;
            }
            if block == 1 {
                break;
            }
            block /= 2;
        }
        if !progressed || *budget_runs == 0 || started.elapsed().as_secs() > 60 {
            break;
        }
    }
    (script, tape)
}

fn batch<S: Sim>(b: &BatchArgs) {
    let tier = b.tier.unwrap();
    let t0 = Instant::now();
    let mut p = Partial::default();
    let mut hashes: Vec<u64> = Vec::new();
    let mut seen_classes: BTreeMap<(String, String, String), usize> = BTreeMap::new();
    let replay_dir = verif_dir().join("replays").join(&b.property);
    let mut index = b.offset;
    let mut shrink_total: u64 = 400_000;
    // the index of the case being executed, so that the coordinator can name the case that made
    // this process die (abort on allocation failure, stack overflow, SIGSEGV …)
    let marker = std::fs::OpenOptions::new().create(true).write(true).truncate(true).open(b.out.with_extension("cur")).ok();
    while index < b.runs {
        if let Some(m) = &marker {
            use std::os::unix::fs::FileExt;
            let _ = m.write_at(&index.to_le_bytes(), 0);
        }
        let (script, tape_rng) = one_case::<S>(b.seed, index, tier, &b.property);
        let mut tape = Tape::generate(tape_rng);
        let keep = p.samples.len() < 2 && index % 7 == b.offset % 7;
        let out = run_isolated::<S>(&script, &mut tape, keep);
        p.runs += 1;
        p.sim_ns += out.sim_ns;
        for (k, v) in &out.counters {
            *p.counters.entry(k.clone()).or_insert(0) += v;
        }
        for s in &out.states {
            if !p.states.contains(s) {
                p.states.insert(s.clone());
            }
        }
        if out.nontrivial {
            p.nontrivial_runs += 1;
            hashes.push(out.log.sched_hash);
        }
        if index < b.det_k {
            p.det_hashes.insert(index, format!("{:016x}", out.log.hash));
        }
        if keep {
            let mut lines = out.log.lines.clone();
            if lines.len() > 60 {
                let n = lines.len();
                lines.truncate(60);
                lines.push(format!("… {} more events", n - 60));
            }
            p.samples.push(json!({
                "index": index,
                "script": serde_json::to_value(&script).unwrap_or(Value::Null),
                "tape_len": tape.rec.len(),
                "events": lines,
                "violations": out.violations.len(),
            }));
        }
        for v in &out.violations {
            if v.property != b.property {
                *p.other_property_violations.entry(v.property.clone()).or_insert(0) += 1;
            }
        }
        // Report each (invariant, signature) class once per worker, after shrinking.
        let mut done: BTreeSet<String> = BTreeSet::new();
        for v in out.violations.iter().filter(|v| v.property == b.property) {
            if !done.insert(v.invariant.clone()) {
                continue;
            }
            // a class already reported by this worker with this very signature needs no shrinking
            let raw_key = (v.property.clone(), v.invariant.clone(), v.signature.clone());
            if let Some(i) = seen_classes.get(&raw_key) {
                p.violations[*i].occurrences += 1;
                continue;
            }
            // A change that breaks the property wholesale makes almost every run fail: report a
            // bounded number of minimised classes per worker and only count the rest.
            if p.violations.len() >= 12 || shrink_total == 0 {
                p.further_violating_runs += 1;
                continue;
            }
            let (s2, t2) = if b.no_shrink {
                (script.clone(), tape.rec.clone())
            } else {
                // per-case budget, bounded by a per-worker total
                let mut budget = 6_000u64.min(shrink_total);
                let before = budget;
                let r = shrink_case::<S>(script.clone(), tape.rec.clone(), &v.property, &v.invariant, &mut budget);
                p.shrink_runs += before - budget;
                shrink_total -= before - budget;
                r
            };
            // Final run of the minimised case, with the log kept.
            let mut tp = Tape::replay(t2.clone());
            let fin = run_isolated::<S>(&s2, &mut tp, true);
            let Some(fv) = fin.violations.iter().find(|x| x.property == v.property && x.invariant == v.invariant).cloned() else {
                harness_error(&format!("shrunk case lost its violation (index {index})"));
            };
            // Replaying the minimised case must reproduce it exactly.
            let mut tp2 = Tape::replay(t2.clone());
            let again = run_isolated::<S>(&s2, &mut tp2, false);
            let exact = again.log.hash == fin.log.hash && has_target(&again, &fv.property, &fv.invariant);
            let key = (fv.property.clone(), fv.invariant.clone(), fv.signature.clone());
            if let Some(i) = seen_classes.get(&key) {
                p.violations[*i].occurrences += 1;
                continue;
            }
            std::fs::create_dir_all(&replay_dir).ok();
            let path = replay_dir.join(format!("{}-{}-{}-{}.json", S::name(), fv.invariant, b.seed, index));
            let rf = ReplayFile {
                sim: S::name().to_string(),
                property: fv.property.clone(),
                invariant: fv.invariant.clone(),
                signature: fv.signature.clone(),
                detail: fv.detail.clone(),
                seed: b.seed,
                index,
                tier: tier.as_str().to_string(),
                original_ops_hint: format!("original tape length {}", tape.rec.len()),
                script: s2,
                tape: t2,
                log_hash: format!("{:016x}", fin.log.hash),
                log: fin.log.lines.clone(),
                regenerate_tape: false,
            };
            std::fs::write(&path, serde_json::to_vec_pretty(&rf).unwrap()).unwrap_or_else(|e| harness_error(&format!("cannot write replay: {e}")));
            seen_classes.insert(key, p.violations.len());
            p.violations.push(FoundViolation {
                v: fv,
                seed: b.seed,
                index,
                replay: path.to_string_lossy().to_string(),
                occurrences: 1,
                replay_exact: exact,
            });
        }
        index += b.stride;
    }
    p.wall_s = t0.elapsed().as_secs_f64();
    // distinct-interleaving hashes go to a side file (binary, 8 bytes each)
    let hpath = b.out.with_extension("hashes");
    let mut f = std::fs::File::create(&hpath).unwrap_or_else(|e| harness_error(&format!("{e}")));
    let mut buf = Vec::with_capacity(hashes.len() * 8);
    for h in &hashes {
        buf.extend_from_slice(&h.to_le_bytes());
    }
    f.write_all(&buf).unwrap();
    p.hashes_file = hpath.to_string_lossy().to_string();
    std::fs::write(&b.out, serde_json::to_vec(&p).unwrap()).unwrap_or_else(|e| harness_error(&format!("{e}")));
}

fn replay<S: Sim>(a: &[String]) -> ! {
    let file = arg_val(a, "--file").or_else(|| a.first().cloned()).unwrap_or_else(|| harness_error("replay: file missing"));
    let data = std::fs::read(&file).unwrap_or_else(|e| harness_error(&format!("cannot read {file}: {e}")));
    let rf: ReplayFile<S::Script> = serde_json::from_slice(&data).unwrap_or_else(|e| harness_error(&format!("cannot parse {file}: {e}")));
    let mut tp = if rf.regenerate_tape {
        let tier = Tier::parse(&rf.tier);
        let (_, tape_rng) = one_case::<S>(rf.seed, rf.index, tier, &rf.property);
        println!("(re-executing a case that killed its worker process: if it does so again, this process dies here — that is the reproduction)");
        Tape::generate(tape_rng)
    } else {
        Tape::replay(rf.tape.clone())
    };
    let out = run_isolated::<S>(&rf.script, &mut tp, true);
    for l in &out.log.lines {
        println!("{l}");
    }
    let hash = format!("{:016x}", out.log.hash);
    let same = has_target(&out, &rf.property, &rf.invariant);
    for v in &out.violations {
        println!("violation: property={} invariant={} signature={} :: {}", v.property, v.invariant, v.signature, v.detail);
    }
    if same {
        println!(
            "REPRODUCED property={} invariant={} log_hash={} ({})",
            rf.property,
            rf.invariant,
            hash,
            if hash == rf.log_hash { "event log identical to the recorded one" } else { "event log differs from the recorded one: code under test changed" }
        );
        println!("VIOLATION property={} replay={}", rf.property, file);
        std::process::exit(1)
    }
    println!("NOT-REPRODUCED property={} invariant={} log_hash={}", rf.property, rf.invariant, hash);
    std::process::exit(0)
}

#[derive(Deserialize, Debug)]
struct KnownFinding {
    status: String,
    property: String,
    invariant: String,
    signature: String,
    what: String,
}

fn load_known(property: &str) -> Vec<KnownFinding> {
    let path = verif_dir().join("known_findings.jsonl");
    let Ok(text) = std::fs::read_to_string(&path) else { return vec![] };
    text.lines()
        .filter(|l| !l.trim().is_empty() && !l.trim_start().starts_with('#'))
        .filter_map(|l| serde_json::from_str::<KnownFinding>(l).ok())
        .filter(|k| k.property == property && k.status == "known")
        .collect()
}

fn check<S: Sim>(a: &[String]) -> ! {
    let t0 = Instant::now();
    let property = arg_val(a, "--property").unwrap_or_else(|| S::properties()[0].to_string());
    if !S::properties().contains(&property.as_str()) {
        harness_error(&format!("{} does not serve {property}", S::name()));
    }
    let tier = Tier::parse(&arg_val(a, "--tier").or_else(|| std::env::var("VERIF_TIER").ok()).unwrap_or("quick".into()));
    let seed: u64 = std::env::var("VERIF_SEED").ok().and_then(|s| s.trim().parse().ok()).unwrap_or(DEFAULT_SEED);
    let runs: u64 = std::env::var("VERIF_RUNS").ok().and_then(|s| s.parse().ok()).unwrap_or_else(|| S::runs(&property, tier));
    let workers: u64 = std::env::var("VERIF_WORKERS")
        .ok()
        .and_then(|s| s.parse().ok())
        .unwrap_or_else(|| std::thread::available_parallelism().map(|n| n.get() as u64).unwrap_or(4))
        .clamp(1, 64);
    let det_k: u64 = std::env::var("VERIF_DET_K").ok().and_then(|s| s.parse().ok()).unwrap_or(match tier {
        Tier::Quick => 200,
        Tier::Thorough => 2000,
    }).min(runs);
    let work = verif_dir().join("work").join(format!("{}-{}-{}", S::name(), property, std::process::id()));
    std::fs::create_dir_all(&work).unwrap_or_else(|e| harness_error(&format!("{e}")));
    // stale replays of this property are removed so that a path printed by this run is from this run
    let rdir = verif_dir().join("replays").join(&property);
    if let Ok(rd) = std::fs::read_dir(&rdir) {
        for e in rd.flatten() {
            let _ = std::fs::remove_file(e.path());
        }
    }
    let exe = std::env::current_exe().unwrap();
    let sim_arg: Vec<String> = std::env::args().skip(1).take_while(|x| x != "check").collect();
    let mut children = Vec::new();
    let spawn = |offset: u64, stride: u64, runs: u64, out: &Path, det_k: u64, no_shrink: bool| {
        let mut c = std::process::Command::new(&exe);
        c.env("RUST_BACKTRACE", "0");
        c.args(&sim_arg)
            .arg("batch")
            .args(["--property", &property, "--tier", tier.as_str()])
            .args(["--seed", &seed.to_string(), "--runs", &runs.to_string()])
            .args(["--offset", &offset.to_string(), "--stride", &stride.to_string()])
            .args(["--det-k", &det_k.to_string()])
            .arg("--out")
            .arg(out);
        if no_shrink {
            c.arg("--no-shrink");
        }
        c.spawn().unwrap_or_else(|e| harness_error(&format!("cannot spawn worker: {e}")))
    };
    for w in 0..workers {
        let out = work.join(format!("part-{w}.json"));
        children.push((spawn(w, workers, runs, &out, det_k, false), out));
    }
    // Determinism re-run: the first det_k cases once more, in one other process with another
    // stride (so in a different order and process image).
    let det_out = work.join("det.json");
    let det_child = spawn(0, 1, det_k, &det_out, det_k, true);
    children.push((det_child, det_out.clone()));
    let mut parts: Vec<Partial> = Vec::new();
    let mut crashes: Vec<FoundViolation> = Vec::new();
    let n_children = children.len();
    let mut queue: std::collections::VecDeque<(std::process::Child, PathBuf, u64, bool)> =
        children.into_iter().enumerate().map(|(i, (c, o))| (c, o, if i + 1 == n_children { 1 } else { workers }, i + 1 == n_children)).collect();
    let mut det_part: Option<Partial> = None;
    let mut respawns = 0;
    while let Some((mut c, out, stride, is_det)) = queue.pop_front() {
        let st = c.wait().unwrap_or_else(|e| harness_error(&format!("{e}")));
        if st.success() {
            let data = std::fs::read(&out).unwrap_or_else(|e| harness_error(&format!("{e}")));
            let p: Partial = serde_json::from_slice(&data).unwrap_or_else(|e| harness_error(&format!("{e}")));
            if is_det { det_part = Some(p) } else { parts.push(p) }
            continue;
        }
        if st.code() == Some(2) {
            harness_error(&format!("worker process reported a harness error: {st}"));
        }
        // The process died (abort, signal): the code under test took the whole process down.
        // Name the case, record it as a violation, carry on after it.
        let idx = std::fs::read(out.with_extension("cur")).ok().filter(|b| b.len() >= 8).map(|b| u64::from_le_bytes(b[..8].try_into().unwrap()));
        let Some(idx) = idx else { harness_error(&format!("worker process died ({st}) before running a case")) };
        if !is_det {
            let (script, _) = one_case::<S>(seed, idx, tier, &property);
            std::fs::create_dir_all(&rdir).ok();
            let path = rdir.join(format!("{}-process-crash-{}-{}.json", S::name(), seed, idx));
            let rf = ReplayFile {
                sim: S::name().to_string(),
                property: property.clone(),
                invariant: "no-process-crash".into(),
                signature: format!("worker process died: {st}"),
                detail: format!("run {idx} killed the worker process ({st}): the code under test aborted (allocation failure, stack overflow or a signal)"),
                seed,
                index: idx,
                tier: tier.as_str().to_string(),
                original_ops_hint: String::new(),
                script,
                tape: vec![],
                log_hash: String::new(),
                log: vec![],
                regenerate_tape: true,
            };
            std::fs::write(&path, serde_json::to_vec_pretty(&rf).unwrap()).ok();
            if let Some(f) = crashes.iter_mut().find(|f| f.v.signature == rf.signature) {
                f.occurrences += 1;
            } else {
                crashes.push(FoundViolation {
                    v: Violation { property: property.clone(), invariant: rf.invariant.clone(), signature: rf.signature.clone(), detail: rf.detail.clone() },
                    seed,
                    index: idx,
                    replay: path.to_string_lossy().to_string(),
                    occurrences: 1,
                    replay_exact: true,
                });
            }
        }
        respawns += 1;
        if respawns > 48 {
            break;
        }
        let limit = if is_det { det_k } else { runs };
        if idx + stride < limit {
            let out2 = work.join(format!("respawn-{respawns}.json"));
            let child = spawn(idx + stride, stride, limit, &out2, det_k, is_det);
            queue.push_back((child, out2, stride, is_det));
        }
    }
    let had_crashes = !crashes.is_empty() || respawns > 0;
    let det = det_part.unwrap_or_default();
    // compare hashes
    let mut det_checked = 0u64;
    for p in &parts {
        for (i, h) in &p.det_hashes {
            match det.det_hashes.get(i) {
                Some(h2) if h2 == h => det_checked += 1,
                Some(h2) => harness_error(&format!("nondeterminism: run {i} gave event-log hash {h} and {h2} in two processes")),
                None if had_crashes => {}
                None => harness_error("determinism re-run is missing a case"),
            }
        }
    }
    // merge
    let mut runs_done = 0;
    let mut nontrivial_runs = 0;
    let mut sim_ns: u128 = 0;
    let mut counters: BTreeMap<String, u64> = BTreeMap::new();
    let mut states: BTreeSet<String> = BTreeSet::new();
    let mut samples = Vec::new();
    let mut found: Vec<FoundViolation> = crashes;
    let mut other: BTreeMap<String, u64> = BTreeMap::new();
    let mut all_hashes: Vec<u64> = Vec::new();
    let mut shrink_runs = 0;
    let mut further = 0;
    for p in &parts {
        further += p.further_violating_runs;
        runs_done += p.runs;
        nontrivial_runs += p.nontrivial_runs;
        sim_ns += p.sim_ns as u128;
        shrink_runs += p.shrink_runs;
        for (k, v) in &p.counters {
            *counters.entry(k.clone()).or_insert(0) += v;
        }
        states.extend(p.states.iter().cloned());
        for (k, v) in &p.other_property_violations {
            *other.entry(k.clone()).or_insert(0) += v;
        }
        if samples.len() < 3 {
            samples.extend(p.samples.iter().take(1).cloned());
        }
        for v in &p.violations {
            if let Some(f) = found.iter_mut().find(|f| f.v.invariant == v.v.invariant && f.v.signature == v.v.signature) {
                f.occurrences += v.occurrences;
            } else {
                found.push(v.clone());
            }
        }
        if let Ok(bytes) = std::fs::read(&p.hashes_file) {
            for c in bytes.chunks_exact(8) {
                all_hashes.push(u64::from_le_bytes(c.try_into().unwrap()));
            }
        }
    }
    all_hashes.sort_unstable();
    all_hashes.dedup();
    let distinct = all_hashes.len() as u64;
    let _ = std::fs::remove_dir_all(&work);
    let wall = t0.elapsed().as_secs_f64();
    let meta = S::meta(&property);
    let known = load_known(&property);
    let mut lines: Vec<String> = Vec::new();
    let mut n_viol = 0;
    let mut n_known = 0;
    let mut inexact = false;
    found.sort_by(|a, b| (a.v.invariant.clone(), a.v.signature.clone()).cmp(&(b.v.invariant.clone(), b.v.signature.clone())));
    for f in &found {
        if !f.replay_exact {
            inexact = true;
        }
        if let Some(k) = known.iter().find(|k| k.invariant == f.v.invariant && k.signature == f.v.signature) {
            n_known += 1;
            lines.push(format!("KNOWN-FINDING: property={} {} [invariant={} signature={} occurrences={} replay={}]", property, k.what, f.v.invariant, f.v.signature, f.occurrences, f.replay));
        } else {
            n_viol += 1;
            lines.push(format!("VIOLATION property={} replay={}", property, f.replay));
            lines.push(format!("  invariant={} signature={} occurrences={} seed={} index={} :: {}", f.v.invariant, f.v.signature, f.occurrences, f.seed, f.index, f.v.detail));
        }
    }
    let mut faults = BTreeMap::new();
    let mut probes = BTreeMap::new();
    for (k, v) in &counters {
        if meta.fault_counters.iter().any(|f| f == k) {
            faults.insert(k.clone(), *v);
        } else {
            probes.insert(k.clone(), *v);
        }
    }
    for f in &meta.fault_counters {
        faults.entry(f.clone()).or_insert(0);
    }
    let gaps: Vec<String> = meta.expected_probes.iter().filter(|p| counters.get(*p).copied().unwrap_or(0) == 0).cloned().collect();
    let evidence = json!({
        "property_id": property,
        "tier": tier.as_str(),
        "seed": seed,
        "level": "exploration",
        "coverage": {
            "evaluations": runs_done,
            "distinct_nontrivial": distinct,
            "rule": meta.rule,
            "samples": samples,
            "simulator": S::name(),
            "nontrivial_runs": nontrivial_runs,
            "runs_per_hour": if wall > 0.0 { (runs_done as f64 / wall * 3600.0) as u64 } else { 0 },
            "simulated_time_s": (sim_ns as f64) / 1e9,
            "faults_fired": faults,
            "probes": probes,
            "probes_never_hit": gaps,
            "distinct_interleavings": distinct,
            "distinct_abstract_states": states.len(),
            "abstract_states": states.iter().take(400).collect::<Vec<_>>(),
            "determinism_check": { "cases_run_twice_in_separate_processes": det_checked, "divergences": 0 },
            "shrink_runs": shrink_runs,
            "further_violating_runs_not_minimised": further,
            "worker_processes": workers,
            "components_real": meta.real,
            "components_stub": meta.stub,
            "violations_of_other_properties_seen": other,
            "known_findings_seen": n_known,
            "exhaustive": false,
        },
        "assumptions": meta.assumptions,
        "wall_s": wall,
        "violations": n_viol,
    });
    let evdir = verif_dir().join("evidence");
    std::fs::create_dir_all(&evdir).ok();
    std::fs::write(evdir.join(format!("{property}.json")), serde_json::to_vec_pretty(&evidence).unwrap()).unwrap_or_else(|e| harness_error(&format!("{e}")));
    println!(
        "{} {} {}: runs={} nontrivial={} distinct_interleavings={} states={} sim_time={:.1}s wall={:.1}s det_checked={} seed={}",
        S::name(), property, tier.as_str(), runs_done, nontrivial_runs, distinct, states.len(), sim_ns as f64 / 1e9, wall, det_checked, seed
    );
    for l in &lines {
        println!("{l}");
    }
    if further > 0 {
        println!("({further} more violating runs were counted but not minimised)");
    }
    if inexact {
        // Only possible when the code under test has introduced a timing dependence the
        // simulator does not own (e.g. several statements per store operation racing with
        // sqlx's worker thread): the violation is real, its replay may need several attempts.
        println!("WARNING: a minimised case did not replay to the same event log twice in a row");
    }
    if runs_done != runs && !had_crashes {
        harness_error(&format!("expected {runs} runs, workers did {runs_done}"));
    }
    std::process::exit(if n_viol > 0 { 1 } else { 0 })
}
