//! Common machinery of the deterministic simulators: PRNG, choice tape, event log,
//! batch driver, shrinker, replay files and partial-result files.
//!
//! One integer (`VERIF_SEED`) decides everything: run `i` of simulator `name` uses
//! `mix(seed, name, i)`; from it one PRNG generates the *script* (workload, configuration, fault
//! plan) and a second one fills the *choice tape* (every scheduling decision taken while the run
//! proceeds). A replay file stores script + tape explicitly, so replay is a pure function of the
//! file and the code under test.

pub mod driver;
pub mod log;
pub mod rng;
pub mod tape;

pub use driver::{BatchArgs, RunOut, Sim, Tier, Violation, main_for};
pub use log::EventLog;
pub use rng::Rng;
pub use tape::Tape;

/// FNV-1a, used wherever a stable 64-bit hash of a string is needed (never `std` hashers: they
/// are seeded per process).
pub fn fnv(s: &[u8]) -> u64 {
    let mut h: u64 = 0xcbf29ce484222325;
    for b in s {
        h ^= *b as u64;
        h = h.wrapping_mul(0x100000001b3);
    }
    h
}

pub fn mix(seed: u64, name: &str, index: u64) -> u64 {
    let mut x = seed ^ fnv(name.as_bytes()).rotate_left(17) ^ index.wrapping_mul(0x9E3779B97F4A7C15);
    // splitmix finaliser
    x = (x ^ (x >> 30)).wrapping_mul(0xBF58476D1CE4E5B9);
    x = (x ^ (x >> 27)).wrapping_mul(0x94D049BB133111EB);
    x ^ (x >> 31)
}
