//! Process-level seams, owned by the simulator, with zero changes to the code under test:
//! the harness executable *defines* `clock_gettime`, `gettimeofday`, `time` and `getrandom`, and
//! the static linker binds std, jiff, the bundled SQLite and the `getrandom` crate to them.
//!
//! * Wall clock (`CLOCK_REALTIME`): while a simulated clock is set, every read returns the
//!   simulated instant and then advances it by `TICK_NS` (so consecutive reads inside one store
//!   operation see different instants when the sim asks for that). Monotonic clocks are passed
//!   through to the kernel: nothing the properties depend on reads them (tokio's paused clock
//!   only uses differences).
//! * Entropy: while a simulated entropy source is set, `getrandom` is a PRNG stream.
use std::sync::Mutex;
use std::sync::atomic::{AtomicI64, AtomicU64, Ordering};

/// i64::MIN = not simulated.
static REALTIME_NS: AtomicI64 = AtomicI64::new(i64::MIN);
static TICK_NS: AtomicI64 = AtomicI64::new(0);
static CLOCK_READS: AtomicU64 = AtomicU64::new(0);
static ENTROPY: Mutex<Option<simcore::Rng>> = Mutex::new(None);

pub const EPOCH_S: i64 = 1_800_000_000;

pub fn set_clock_ns(ns: i64, tick_ns: i64) {
    REALTIME_NS.store(ns, Ordering::SeqCst);
    TICK_NS.store(tick_ns, Ordering::SeqCst);
}
pub fn reset_clock_reads() {
    CLOCK_READS.store(0, Ordering::SeqCst);
}
pub fn clear_clock() {
    REALTIME_NS.store(i64::MIN, Ordering::SeqCst);
}
pub fn clock_ns() -> i64 {
    REALTIME_NS.load(Ordering::SeqCst)
}
pub fn advance_clock_ns(d: i64) {
    REALTIME_NS.fetch_add(d, Ordering::SeqCst);
}
pub fn clock_reads() -> u64 {
    CLOCK_READS.load(Ordering::SeqCst)
}
pub fn set_entropy(seed: Option<u64>) {
    *ENTROPY.lock().unwrap() = seed.map(simcore::Rng::new);
}

fn read_sim_clock() -> Option<i64> {
    let cur = REALTIME_NS.load(Ordering::SeqCst);
    if cur == i64::MIN {
        return None;
    }
    CLOCK_READS.fetch_add(1, Ordering::SeqCst);
    let tick = TICK_NS.load(Ordering::SeqCst);
    if tick != 0 {
        Some(REALTIME_NS.fetch_add(tick, Ordering::SeqCst))
    } else {
        Some(cur)
    }
}

#[unsafe(no_mangle)]
pub unsafe extern "C" fn clock_gettime(clk: libc::clockid_t, ts: *mut libc::timespec) -> libc::c_int {
    if (clk == libc::CLOCK_REALTIME || clk == libc::CLOCK_REALTIME_COARSE) && !ts.is_null() {
        if let Some(ns) = read_sim_clock() {
            unsafe {
                (*ts).tv_sec = ns.div_euclid(1_000_000_000);
                (*ts).tv_nsec = ns.rem_euclid(1_000_000_000);
            }
            return 0;
        }
    }
    unsafe { libc::syscall(libc::SYS_clock_gettime, clk, ts) as libc::c_int }
}

#[unsafe(no_mangle)]
pub unsafe extern "C" fn gettimeofday(tv: *mut libc::timeval, tz: *mut libc::c_void) -> libc::c_int {
    if !tv.is_null() {
        if let Some(ns) = read_sim_clock() {
            unsafe {
                (*tv).tv_sec = ns.div_euclid(1_000_000_000);
                (*tv).tv_usec = ns.rem_euclid(1_000_000_000) / 1000;
            }
            return 0;
        }
    }
    unsafe { libc::syscall(libc::SYS_gettimeofday, tv, tz) as libc::c_int }
}

#[unsafe(no_mangle)]
pub unsafe extern "C" fn time(t: *mut libc::time_t) -> libc::time_t {
    let s = if let Some(ns) = read_sim_clock() {
        ns.div_euclid(1_000_000_000)
    } else {
        let mut ts = libc::timespec { tv_sec: 0, tv_nsec: 0 };
        unsafe { libc::syscall(libc::SYS_clock_gettime, libc::CLOCK_REALTIME, &mut ts) };
        ts.tv_sec
    };
    if !t.is_null() {
        unsafe { *t = s };
    }
    s
}

#[unsafe(no_mangle)]
pub unsafe extern "C" fn getrandom(buf: *mut libc::c_void, len: libc::size_t, flags: libc::c_uint) -> libc::ssize_t {
    if let Ok(mut g) = ENTROPY.try_lock() {
        if let Some(rng) = g.as_mut() {
            let bytes = rng.bytes(len);
            unsafe { std::ptr::copy_nonoverlapping(bytes.as_ptr(), buf as *mut u8, len) };
            return len as libc::ssize_t;
        }
    }
    unsafe { libc::syscall(libc::SYS_getrandom, buf, len, flags) as libc::ssize_t }
}

// ---- sleeping: a simulated thread that asks the OS to sleep is blocked in SIMULATED time

fn ts_ns(ts: *const libc::timespec) -> Option<u64> {
    if ts.is_null() {
        return None;
    }
    let (s, n) = unsafe { ((*ts).tv_sec, (*ts).tv_nsec) };
    if s < 0 || n < 0 {
        return None;
    }
    Some((s as u64).saturating_mul(1_000_000_000).saturating_add(n as u64))
}

#[unsafe(no_mangle)]
pub unsafe extern "C" fn nanosleep(req: *const libc::timespec, rem: *mut libc::timespec) -> libc::c_int {
    if let Some(ns) = ts_ns(req) {
        if crate::sched::note_blocking_sleep(ns) {
            return 0;
        }
    }
    unsafe { libc::syscall(libc::SYS_nanosleep, req, rem) as libc::c_int }
}

#[unsafe(no_mangle)]
pub unsafe extern "C" fn clock_nanosleep(clk: libc::clockid_t, flags: libc::c_int, req: *const libc::timespec, rem: *mut libc::timespec) -> libc::c_int {
    if let Some(mut ns) = ts_ns(req) {
        if flags & libc::TIMER_ABSTIME != 0 {
            // absolute deadline on a real clock: the remaining time is what the caller wants to sleep
            let mut now = libc::timespec { tv_sec: 0, tv_nsec: 0 };
            unsafe { libc::syscall(libc::SYS_clock_gettime, clk, &mut now) };
            let n = (now.tv_sec as u64).saturating_mul(1_000_000_000).saturating_add(now.tv_nsec as u64);
            ns = ns.saturating_sub(n);
        }
        if crate::sched::note_blocking_sleep(ns) {
            return 0;
        }
    }
    // clock_nanosleep returns the error number itself
    let r = unsafe { libc::syscall(libc::SYS_clock_nanosleep, clk, flags, req, rem) };
    if r == -1 { unsafe { *libc::__errno_location() } } else { 0 }
}
