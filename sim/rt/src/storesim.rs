//! C13 — session stores behave like a map with expiry, under concurrency too.
//!
//! 1–3 simulated client tasks issue create / update / update_ttl / load / delete / change_id /
//! delete_expired on 1–3 ids against the REAL store, in *phases*: the simulated wall clock is
//! frozen while the tasks of a phase overlap (so linearizability is checked against a
//! time-independent model) and moves between phases by seeded steps aimed at the deadlines
//! (deadline − 1, exactly the deadline, + 1), occasionally backwards.
//!
//! * `memory`: `InMemorySessionStore` compiled from the repository's source through a shadow
//!   manifest against a `tokio` facade whose `Mutex::lock()` is a scheduling point; the tasks run
//!   on the simulator's own executor and the choice tape decides who runs at every step.
//! * `sqlite`: `SqliteSessionStore` over `sqlite::memory:` with a pool of ONE connection on a
//!   current-thread tokio runtime; tasks pass a turnstile owned by the simulator before each
//!   operation, several may be inside an operation at once, the connection is handed out FIFO.
//!   `unixepoch()` and jiff read the simulated clock.
//!
//! Oracle: invoke/return events stamped with the global sequence number; a WGL-style search
//! looks for a linearisation accepted by the reference model `id → (state, deadline)`; the set of
//! model states reachable at the end of a phase seeds the next phase.
use std::borrow::Cow;
use std::cell::RefCell;
use std::collections::{BTreeMap, BTreeSet, HashMap};
use std::future::Future;
use std::num::NonZeroUsize;
use std::pin::Pin;
use std::rc::Rc;
use std::sync::Arc;
use std::task::{Context, Poll};
use std::time::Duration;

use pavex_session::store::errors::*;
use pavex_session::store::{SessionRecord, SessionRecordRef, SessionStorageBackend};
use pavex_session::{SessionId, SessionStore};
use serde::{Deserialize, Serialize};
use serde_json::{Value, json};
use simcore::{EventLog, Rng, RunOut, Sim, Tape, Tier, Violation, driver::SimMeta};

use crate::seams;

pub struct StoreSim;

#[derive(Serialize, Deserialize, Clone, Debug, PartialEq)]
pub enum Op {
    Create { id: u8, ttl_ms: u64, val: u32 },
    Update { id: u8, ttl_ms: u64, val: u32 },
    UpdateTtl { id: u8, ttl_ms: u64 },
    Load { id: u8 },
    Delete { id: u8 },
    ChangeId { old: u8, new: u8 },
    DeleteExpired { batch: Option<u8> },
}

#[derive(Serialize, Deserialize, Clone, Debug, PartialEq)]
pub struct Phase {
    /// clock step before the phase, milliseconds (may be negative)
    pub advance_ms: i64,
    pub tasks: Vec<Vec<Op>>,
    /// SQLite arm, fault: the k-th statement the simulator releases in this phase (transaction
    /// control excluded) fails with FAULT_CODES[c] instead of executing — disk full / I/O error /
    /// busy, as the VFS would report it
    #[serde(default)]
    pub fail_stmt: Option<(u8, u8)>,
    /// SQLite arm, fault: operation number `.1` of task `.0` is released ALONE and its future is
    /// DROPPED (the caller was cancelled: client gone, timeout) once `.2` of its statements have
    /// been executed and the next one is parked at the turnstile
    #[serde(default)]
    pub cancel: Option<(u8, u8, u8)>,
}

#[derive(Serialize, Deserialize, Clone, Debug, PartialEq)]
pub struct Script {
    pub backend: String,
    pub phases: Vec<Phase>,
}

#[derive(Clone, Debug, PartialEq)]
enum Ret {
    Ok,
    UnknownId,
    DuplicateId,
    Other(String),
    /// load: None, or Some((marker of the state if the whole state is intact, ttl in ns))
    Loaded(Option<(Option<u32>, i64)>),
    Deleted(usize),
    /// the caller dropped the operation's future before it returned
    Cancelled,
    /// the operation panicked (tolerated only for a TTL that no timestamp can represent)
    Panicked,
}

#[derive(Clone, Debug)]
struct Event {
    task: usize,
    op: Op,
    invoke: u64,
    ret: u64,
    out: Ret,
}

fn sid(i: u8) -> SessionId {
    serde_json::from_value(Value::String(format!("00000000-0000-4000-8000-00000000000{}", i % 10))).unwrap()
}

/// The state written by operation `val`: always carries its unique marker, plus a seeded
/// assortment of JSON shapes (nested values, unicode, empty and long strings, extreme numbers).
fn state_for(val: u32) -> HashMap<Cow<'static, str>, Value> {
    let mut m: HashMap<Cow<'static, str>, Value> = HashMap::new();
    if val == 0 {
        // the EMPTY state (a session whose last key was removed): all empty states are alike
        return m;
    }
    m.insert("#".into(), json!(val));
    if val % 97 == 13 {
        // a deeply nested document (130 levels of arrays): "any JSON" has no depth limit
        let mut v = json!(val);
        for _ in 0..130 {
            v = Value::Array(vec![v]);
        }
        m.insert("deep".into(), v);
        return m;
    }
    match val % 7 {
        0 => {}
        1 => {
            m.insert("nested".into(), json!({"a": [1, 2, {"b": null}], "c": {"d": {"e": [true, false]}}}));
        }
        2 => {
            m.insert("unicode ключ 🔑".into(), json!("значение \u{1F600} \u{0} \" \\ \n 'quote' ; --"));
        }
        3 => {
            m.insert("".into(), json!(""));
            m.insert("long".into(), json!("x".repeat(3000 + (val as usize % 50))));
        }
        4 => {
            m.insert("nums".into(), json!([i64::MAX, i64::MIN, u64::MAX, 1.7976931348623157e308, -0.0, 1e-300]));
            // everyday doubles with a full mantissa (prices, coordinates, timestamps): a store that
            // re-parses its JSON text with a fast-but-inexact float parser returns them one ULP off
            let mut x = (val as u64).wrapping_mul(0x9E37_79B9_7F4A_7C15) ^ 0xD1B5_4A32_D192_ED03;
            let floats: Vec<f64> = (0..6)
                .map(|_| {
                    x ^= x >> 30;
                    x = x.wrapping_mul(0xBF58_476D_1CE4_E5B9);
                    x ^= x >> 27;
                    ((x >> 11) as f64 / (1u64 << 53) as f64) * 1000.0
                })
                .collect();
            m.insert("floats".into(), json!(floats));
        }
        5 => {
            m.insert("k1".into(), json!(null));
            m.insert("k2".into(), json!([]));
            m.insert("k3".into(), json!({}));
        }
        _ => {
            m.insert("sql'; DROP TABLE sessions; --".into(), json!("%_\\"));
        }
    }
    m
}

fn marker_of(state: &HashMap<Cow<'static, str>, Value>) -> Option<u32> {
    if state.is_empty() {
        return Some(0);
    }
    let v = state.get("#")?.as_u64()? as u32;
    if &state_for(v) == state { Some(v) } else { None }
}

async fn do_op(store: &SessionStore, op: &Op) -> Ret {
    match op {
        Op::Create { id, ttl_ms, val } => {
            let st = state_for(*val);
            match store.create(&sid(*id), SessionRecordRef { state: Cow::Borrowed(&st), ttl: Duration::from_millis(*ttl_ms) }).await {
                Ok(()) => Ret::Ok,
                Err(CreateError::DuplicateId(_)) => Ret::DuplicateId,
                Err(e) => Ret::Other(format!("{e:?}")),
            }
        }
        Op::Update { id, ttl_ms, val } => {
            let st = state_for(*val);
            match store.update(&sid(*id), SessionRecordRef { state: Cow::Borrowed(&st), ttl: Duration::from_millis(*ttl_ms) }).await {
                Ok(()) => Ret::Ok,
                Err(UpdateError::UnknownIdError(_)) => Ret::UnknownId,
                Err(e) => Ret::Other(format!("{e:?}")),
            }
        }
        Op::UpdateTtl { id, ttl_ms } => match store.update_ttl(&sid(*id), Duration::from_millis(*ttl_ms)).await {
            Ok(()) => Ret::Ok,
            Err(UpdateTtlError::UnknownId(_)) => Ret::UnknownId,
            Err(e) => Ret::Other(format!("{e:?}")),
        },
        Op::Load { id } => match store.load(&sid(*id)).await {
            Ok(None) => Ret::Loaded(None),
            Ok(Some(SessionRecord { state, ttl })) => Ret::Loaded(Some((marker_of(&state), ttl.as_nanos() as i64))),
            Err(e) => Ret::Other(format!("{e:?}")),
        },
        Op::Delete { id } => match store.delete(&sid(*id)).await {
            Ok(()) => Ret::Ok,
            Err(DeleteError::UnknownId(_)) => Ret::UnknownId,
            Err(e) => Ret::Other(format!("{e:?}")),
        },
        Op::ChangeId { old, new } => match store.change_id(&sid(*old), &sid(*new)).await {
            Ok(()) => Ret::Ok,
            Err(ChangeIdError::UnknownId(_)) => Ret::UnknownId,
            Err(ChangeIdError::DuplicateId(_)) => Ret::DuplicateId,
            Err(e) => Ret::Other(format!("{e:?}")),
        },
        Op::DeleteExpired { batch } => match store.delete_expired(batch.and_then(|b| NonZeroUsize::new(b as usize))).await {
            Ok(n) => Ret::Deleted(n),
            Err(e) => Ret::Other(format!("{e:?}")),
        },
    }
}

// ---------------------------------------------------------------------------------------------
// reference model

/// id → (marker of the state, deadline in ns): the records PHYSICALLY present, expired ones
/// included — a store may or may not reclaim an expired record when it stumbles on it, and that
/// only shows if the wall clock later jumps backwards, so those transitions branch.
type MState = BTreeMap<u8, (u32, i64)>;

/// `now + ttl`, saturating far beyond anything the simulated clock reaches.
fn deadline_of(now: i64, ttl_ms: u64) -> i64 {
    now.saturating_add(((ttl_ms as i128) * 1_000_000).min((i64::MAX / 4) as i128) as i64)
}

fn live(s: &MState, id: u8, now: i64) -> bool {
    s.get(&id).map(|(_, d)| *d > now).unwrap_or(false)
}

/// Named deviations from the specification. When a history is not linearizable the checker
/// re-runs the search with these relaxations enabled to *name* the root cause; the names are
/// what `known_findings.jsonl` matches on. A relaxation never makes a run pass.
const R_CREATE_AT_DEADLINE_NOOP: u8 = 1;
const R_CHANGE_ID_ONTO_EXPIRED_DUPLICATE: u8 = 2;
const RELAX_NAMES: [(u8, &str); 2] = [
    (R_CREATE_AT_DEADLINE_NOOP, "create-on-a-record-exactly-at-its-deadline-answers-Ok-without-writing"),
    (R_CHANGE_ID_ONTO_EXPIRED_DUPLICATE, "change_id-onto-an-expired-but-not-yet-reclaimed-id-answers-DuplicateId"),
];

/// Model transition: the states the store may be in after `op` returned `ret` in state `s` at
/// (frozen) time `now`; empty = this return value is not acceptable in this state.
fn step(s: &MState, op: &Op, ret: &Ret, now: i64, relax: u8) -> Vec<MState> {
    let same = || vec![s.clone()];
    let none = Vec::new;
    if let Ret::Panicked = ret {
        // `now + ttl` is not a representable instant: refusing the call (by panicking, as the
        // unchanged stores do) is tolerated, as long as nothing was written and the store goes on
        // serving everybody else; a panic on any other input is never acceptable
        let huge = matches!(op, Op::Create { ttl_ms, .. } | Op::Update { ttl_ms, .. } | Op::UpdateTtl { ttl_ms, .. } if *ttl_ms == u64::MAX);
        return if huge { same() } else { none() };
    }
    if let Ret::Cancelled = ret {
        // the caller went away in the middle: the operation took effect as a whole (with whatever
        // answer nobody saw) or not at all
        let mut v = same();
        for r in [Ret::Ok, Ret::UnknownId, Ret::DuplicateId] {
            for n in step(s, op, &r, now, relax) {
                if !v.contains(&n) {
                    v.push(n);
                }
            }
        }
        return v;
    }
    if let Ret::Other(_) = ret {
        // a backend error (only tolerated after an injected statement failure, see `check_phase`):
        // the operation must not have taken effect, not even in part
        return same();
    }
    match op {
        Op::Create { id, ttl_ms, val } => {
            if live(s, *id, now) {
                // never overwrites a live record; the return value is unconstrained
                if matches!(ret, Ret::Ok | Ret::DuplicateId) { same() } else { none() }
            } else {
                if *ret != Ret::Ok {
                    return none();
                }
                let mut n = s.clone();
                n.insert(*id, (*val, deadline_of(now, *ttl_ms)));
                let mut v = vec![n];
                if relax & R_CREATE_AT_DEADLINE_NOOP != 0 && s.get(id).map(|(_, d)| *d == now).unwrap_or(false) {
                    v.push(s.clone());
                }
                v
            }
        }
        Op::Update { id, ttl_ms, val } => {
            if live(s, *id, now) {
                if *ret != Ret::Ok {
                    return none();
                }
                let mut n = s.clone();
                n.insert(*id, (*val, deadline_of(now, *ttl_ms)));
                vec![n]
            } else if *ret == Ret::UnknownId {
                same()
            } else {
                none()
            }
        }
        Op::UpdateTtl { id, ttl_ms } => {
            if live(s, *id, now) {
                if *ret != Ret::Ok {
                    return none();
                }
                let mut n = s.clone();
                let v = s[id].0;
                n.insert(*id, (v, deadline_of(now, *ttl_ms)));
                vec![n]
            } else if *ret == Ret::UnknownId {
                same()
            } else {
                none()
            }
        }
        Op::Load { id } => {
            if live(s, *id, now) {
                let (v, d) = s[id];
                match ret {
                    Ret::Loaded(Some((Some(m), ttl))) if *m == v && *ttl <= d - now && *ttl >= 0 => same(),
                    _ => none(),
                }
            } else if *ret == Ret::Loaded(None) {
                same()
            } else {
                none()
            }
        }
        Op::Delete { id } => {
            if live(s, *id, now) {
                if *ret != Ret::Ok {
                    return none();
                }
                let mut n = s.clone();
                n.remove(id);
                vec![n]
            } else if *ret == Ret::UnknownId {
                let mut v = same();
                if s.contains_key(id) {
                    // the expired record may be reclaimed on the way
                    let mut n = s.clone();
                    n.remove(id);
                    v.push(n);
                }
                v
            } else {
                none()
            }
        }
        Op::ChangeId { old, new } => {
            let lo = live(s, *old, now);
            let ln = live(s, *new, now);
            // expired records under either id may be reclaimed on the way
            let with_old_reclaimed = |v: Vec<MState>| {
                let mut out = v.clone();
                for base in &v {
                    for (drop_old, drop_new) in [(true, false), (false, true), (true, true)] {
                        let mut n = base.clone();
                        let mut changed = false;
                        if drop_old && !lo && n.contains_key(old) {
                            n.remove(old);
                            changed = true;
                        }
                        if drop_new && !ln && n.contains_key(new) {
                            n.remove(new);
                            changed = true;
                        }
                        if changed {
                            out.push(n);
                        }
                    }
                }
                out
            };
            match (lo, ln) {
                (true, true) => {
                    // renaming a live record onto ITSELF: the backends disagree (memory: duplicate id,
                    // SQLite: Ok) and the property does not say; either way nothing changes
                    if *ret == Ret::DuplicateId || (old == new && *ret == Ret::Ok) { same() } else { none() }
                }
                (false, true) => {
                    if matches!(ret, Ret::DuplicateId | Ret::UnknownId) { with_old_reclaimed(same()) } else { none() }
                }
                (false, false) => {
                    if *ret == Ret::UnknownId { with_old_reclaimed(same()) } else { none() }
                }
                (true, false) => {
                    if *ret == Ret::Ok {
                        let mut n = s.clone();
                        let r = n.remove(old).unwrap();
                        n.insert(*new, r);
                        vec![n]
                    } else if *ret == Ret::DuplicateId && relax & R_CHANGE_ID_ONTO_EXPIRED_DUPLICATE != 0 && s.contains_key(new) {
                        same()
                    } else {
                        none()
                    }
                }
            }
        }
        Op::DeleteExpired { batch } => {
            let Ret::Deleted(k) = ret else { return none() };
            if let Some(b) = batch {
                if *b > 0 && *k > *b as usize {
                    return none();
                }
            }
            // exactly k records went, all of them expired; which ones is the store's business
            let expired: Vec<u8> = s.iter().filter(|(_, (_, d))| *d <= now).map(|(id, _)| *id).collect();
            if *k > expired.len() {
                return none();
            }
            let mut v = Vec::new();
            for mask in 0u32..(1 << expired.len()) {
                if mask.count_ones() as usize != *k {
                    continue;
                }
                let mut n = s.clone();
                for (i, id) in expired.iter().enumerate() {
                    if mask & (1 << i) != 0 {
                        n.remove(id);
                    }
                }
                v.push(n);
            }
            v
        }
    }
}

/// All model states reachable by some linearisation of `evs` from `init` (empty = the history
/// is not linearizable).
fn linearize(evs: &[Event], init: &MState, now: i64, relax: u8, explored: &mut u64) -> BTreeSet<MState> {
    let n = evs.len();
    let full: u32 = if n == 32 { u32::MAX } else { (1u32 << n) - 1 };
    let mut finals: BTreeSet<MState> = BTreeSet::new();
    let mut seen: BTreeSet<(u32, MState)> = BTreeSet::new();
    let mut stack: Vec<(u32, MState)> = vec![(0, init.clone())];
    while let Some((done, st)) = stack.pop() {
        *explored += 1;
        if done == full {
            finals.insert(st);
            continue;
        }
        // an operation may be linearised next iff no other pending operation returned before it
        // was invoked
        let min_ret = (0..n).filter(|i| done & (1 << i) == 0).map(|i| evs[i].ret).min().unwrap();
        for i in 0..n {
            if done & (1 << i) != 0 || evs[i].invoke > min_ret {
                continue;
            }
            for next in step(&st, &evs[i].op, &evs[i].out, now, relax) {
                // A store may reclaim an expired record whenever it stumbles on it — during ANY
                // operation, not only one that names its id (an opportunistic purge is invisible
                // until the wall clock jumps backwards): every subset of the expired records may
                // be gone afterwards.
                let expired: Vec<u8> = next.iter().filter(|(_, (_, d))| *d <= now).map(|(id, _)| *id).collect();
                for mask in 0u32..(1 << expired.len()) {
                    let mut n2 = next.clone();
                    for (b, id) in expired.iter().enumerate() {
                        if mask & (1 << b) != 0 {
                            n2.remove(id);
                        }
                    }
                    let key = (done | (1 << i), n2);
                    if seen.insert(key.clone()) {
                        stack.push(key);
                    }
                }
            }
        }
    }
    finals
}

// ---------------------------------------------------------------------------------------------
// executors

struct Shared {
    seq: u64,
    events: Vec<Event>,
    log: EventLog,
    /// statement failures injected in the current phase
    faults_fired: u32,
    /// (task, op index) whose future is to be dropped when `cancel` is notified
    cancel_target: Option<(usize, usize)>,
    cancel: Rc<tokio::sync::Notify>,
    /// a connection was left with an open transaction although every operation had returned
    tx_left_open: bool,
}

fn op_str(op: &Op) -> String {
    match op {
        Op::Create { id, ttl_ms, val } => format!("create(id{id},v{val},ttl={ttl_ms}ms)"),
        Op::Update { id, ttl_ms, val } => format!("update(id{id},v{val},ttl={ttl_ms}ms)"),
        Op::UpdateTtl { id, ttl_ms } => format!("update_ttl(id{id},ttl={ttl_ms}ms)"),
        Op::Load { id } => format!("load(id{id})"),
        Op::Delete { id } => format!("delete(id{id})"),
        Op::ChangeId { old, new } => format!("change_id(id{old}->id{new})"),
        Op::DeleteExpired { batch } => format!("delete_expired({batch:?})"),
    }
}

fn ret_str(r: &Ret) -> String {
    match r {
        Ret::Other(e) => format!("Other({})", e.chars().take(60).collect::<String>()),
        Ret::Cancelled => "Cancelled".into(),
        Ret::Panicked => "Panicked".into(),
        Ret::Loaded(Some((m, ttl))) => format!("Some(v{}, ttl={}ms)", m.map(|x| x.to_string()).unwrap_or("CORRUPT".into()), ttl / 1_000_000),
        Ret::Loaded(None) => "None".into(),
        o => format!("{o:?}"),
    }
}

async fn task_body(store: Arc<SessionStore>, task: usize, ops: Vec<Op>, sh: Rc<RefCell<Shared>>, mut gate: Option<tokio::sync::mpsc::UnboundedReceiver<u64>>, done: Option<tokio::sync::mpsc::UnboundedSender<usize>>) {
    let mut op_index = 0usize;
    for op in ops {
        // sqlite arm: the operation counts as invoked when the simulator releases it (the moment
        // the client issues the call); the sequence number comes with the release
        let invoke = match gate.as_mut() {
            Some(g) => match g.recv().await {
                Some(q) => q,
                None => return,
            },
            None => {
                let mut s = sh.borrow_mut();
                s.seq += 1;
                let q = s.seq;
                s.log.sched(format_args!("task{task} invoke {}", op_str(&op)));
                q
            }
        };
        let (is_target, cancel) = {
            let s = sh.borrow();
            (s.cancel_target == Some((task, op_index)), s.cancel.clone())
        };
        op_index += 1;
        use futures_util::FutureExt as _;
        let guarded = std::panic::AssertUnwindSafe(do_op(store.as_ref(), &op)).catch_unwind().map(|r| r.unwrap_or(Ret::Panicked));
        let out = if is_target {
            tokio::select! {
                biased;
                _ = cancel.notified() => Ret::Cancelled,
                r = guarded => r,
            }
        } else {
            guarded.await
        };
        {
            let mut s = sh.borrow_mut();
            s.seq += 1;
            // a cancelled operation "returns" for the model once the statement it left behind has
            // been flushed: the simulator fills `ret` in then
            let q = if out == Ret::Cancelled { 0 } else { s.seq };
            s.log.sched(format_args!("task{task} return {} -> {}", op_str(&op), ret_str(&out)));
            s.events.push(Event { task, op, invoke, ret: q, out });
        }
        if let Some(d) = &done {
            let _ = d.send(task);
        }
    }
}

struct NoopWake;
impl std::task::Wake for NoopWake {
    fn wake(self: Arc<Self>) {}
}

/// Memory arm: the simulator's own executor; the tape picks the task to poll at every step.
fn run_phase_memory(store: Arc<SessionStore>, phase: &Phase, tape: &mut Tape, sh: &Rc<RefCell<Shared>>) {
    let mut futs: Vec<Option<Pin<Box<dyn Future<Output = ()>>>>> = phase
        .tasks
        .iter()
        .enumerate()
        .map(|(i, ops)| Some(Box::pin(task_body(store.clone(), i, ops.clone(), sh.clone(), None, None)) as Pin<Box<dyn Future<Output = ()>>>))
        .collect();
    let waker = std::task::Waker::from(Arc::new(NoopWake));
    let mut cx = Context::from_waker(&waker);
    let mut steps = 0u64;
    loop {
        let alive: Vec<usize> = futs.iter().enumerate().filter(|(_, f)| f.is_some()).map(|(i, _)| i).collect();
        if alive.is_empty() {
            break;
        }
        steps += 1;
        if steps > 100_000 {
            simcore::driver::harness_error("storesim(memory): step cap exceeded (deadlock in the store?)");
        }
        let i = alive[tape.choose(alive.len() as u32) as usize];
        if let Poll::Ready(()) = futs[i].as_mut().unwrap().as_mut().poll(&mut cx) {
            futs[i] = None;
        }
    }
}

/// SQLite arm: tasks on a LocalSet, released through a turnstile by the tape.
async fn run_phase_sqlite(store: Arc<SessionStore>, phase: &Phase, tape: &mut Tape, sh: &Rc<RefCell<Shared>>) {
    let n = phase.tasks.len();
    let (done_tx, mut done_rx) = tokio::sync::mpsc::unbounded_channel::<usize>();
    let mut gates = Vec::new();
    let mut handles = Vec::new();
    for (i, ops) in phase.tasks.iter().enumerate() {
        let (tx, rx) = tokio::sync::mpsc::unbounded_channel::<u64>();
        gates.push(tx);
        handles.push(tokio::task::spawn_local(task_body(store.clone(), i, ops.clone(), sh.clone(), Some(rx), Some(done_tx.clone()))));
    }
    drop(done_tx);
    let mut remaining: Vec<usize> = phase.tasks.iter().map(|t| t.len()).collect();
    // statements released so far in this phase that could have been failed (see `fail_stmt`)
    let mut failable_seen: u32 = 0;
    let mut cancelled_in_phase = false;
    // Operations are released in batches (at most one per task). Every SQL statement they issue
    // stops at the turnstile inside `sqlite3_step` (see gate.rs) until the simulator lets it go:
    // the simulator waits until the system is QUIESCENT — every operation in flight is either
    // parked at the turnstile or finished — and only then lets the tape pick ONE of the parked
    // statements (ordered by their expanded SQL text, which is unique per operation, so the
    // choice does not depend on which worker thread serves which task). Nothing advances between
    // two such decisions except the one granted statement, so the run is a pure function of the
    // tape although sqlx's workers are real OS threads.
    loop {
        let cands: Vec<usize> = (0..n).filter(|i| remaining[*i] > 0).collect();
        if cands.is_empty() {
            break;
        }
        let mut batch: Vec<usize> = cands.iter().copied().filter(|_| tape.chance(1, 2)).collect();
        if batch.is_empty() {
            batch.push(cands[tape.choose(cands.len() as u32) as usize]);
        }
        // the operation that is going to be cancelled runs alone (the statement it leaves parked at
        // the turnstile is then unambiguously its own)
        let mut cancel_after: Option<u32> = None;
        if let Some((ct, co, ck)) = phase.cancel {
            let (ct, co) = (ct as usize, co as usize);
            if ct < n && remaining[ct] > 0 && phase.tasks[ct].len() - remaining[ct] == co && cancellable(&phase.tasks[ct][co]) {
                batch = vec![ct];
                cancel_after = Some(ck as u32);
                sh.borrow_mut().cancel_target = Some((ct, co));
            }
        }
        if batch.len() > 1 && tape.chance(1, 2) {
            batch.reverse();
        }
        // Two tasks issuing the very same operation (same kind, same arguments) would park two
        // identical statements at the turnstile; which task owns which is not observable, so one
        // of them waits for the next batch.
        {
            let mut seen: Vec<&Op> = Vec::new();
            batch.retain(|i| {
                let op = &phase.tasks[*i][phase.tasks[*i].len() - remaining[*i]];
                // (two renames onto the same id start with the same clean-up statement)
                let same_target = matches!(op, Op::ChangeId { new, .. } if seen.iter().any(|o| matches!(o, Op::ChangeId { new: n2, .. } if n2 == new)));
                if seen.contains(&op) || same_target {
                    false
                } else {
                    seen.push(op);
                    true
                }
            });
        }
        for i in &batch {
            let idx = phase.tasks[*i].len() - remaining[*i];
            remaining[*i] -= 1;
            let q = {
                let mut s = sh.borrow_mut();
                s.seq += 1;
                let q = s.seq;
                s.log.sched(format_args!("task{} invoke {}", i, op_str(&phase.tasks[*i][idx])));
                q
            };
            let _ = gates[*i].send(q);
        }
        let mut done = 0usize;
        let mut granted_in_batch = 0u32;
        let mut open_since: Option<std::time::Instant> = None;
        // Harness-error paths only (never part of the event log): a suspicious state must PERSIST in
        // real time before it is declared, because sqlx's worker threads are real threads and a
        // snapshot can catch one between "woken up" and "running" (e.g. just released by the
        // committing transaction's unlock-notify callback, not yet rescheduled by the OS).
        let mut stuck_since: Option<std::time::Instant> = None;
        let mut asleep_since: Option<std::time::Instant> = None;
        let mut spins = 0u64;
        loop {
            while let Ok(_i) = done_rx.try_recv() {
                done += 1;
            }
            if done == batch.len() {
                // every operation has returned; a dropped transaction may still owe its ROLLBACK
                let snap = crate::gate::snapshot();
                if snap.moving == 0 && snap.orphan_transactions == 0 && snap.lock_waiting == 0 {
                    if snap.parked.is_empty() {
                        break;
                    }
                    let k = tape.choose(snap.parked.len() as u32) as usize;
                    sh.borrow_mut().log.sched(format_args!("grant (background) {}", snap.parked[k].chars().take(40).collect::<String>()));
                    crate::gate::grant_and_wait(&snap.parked[k]);
                } else {
                    // Every operation has returned (or was cancelled), nothing is parked, nothing moves,
                    // and yet a connection sits inside a transaction: if that persists, nobody is ever
                    // going to end it.
                    if snap.moving == 0 && snap.lock_waiting == 0 && snap.parked.is_empty() && snap.orphan_transactions > 0 {
                        if open_since.get_or_insert_with(std::time::Instant::now).elapsed() > std::time::Duration::from_millis(1500) {
                            let mut s = sh.borrow_mut();
                            s.log.sched(format_args!("a connection was left inside a transaction"));
                            s.tx_left_open = true;
                            break;
                        }
                    } else {
                        open_since = None;
                    }
                    tokio::task::yield_now().await;
                }
                continue;
            }
            let snap = crate::gate::snapshot();
            let (waiting, running, lock_waiting) = (snap.parked, snap.moving, snap.lock_waiting);
            // a ROLLBACK is the only statement no operation waits for (a transaction dropped on an
            // error path): it is scheduled like any other statement but does not count as an
            // operation in flight
            let op_statements = waiting.iter().filter(|w| w.as_str() != "ROLLBACK").count();
            let all_asleep = running == 0 && waiting.is_empty() && lock_waiting > 0 && snap.orphan_transactions == 0 && lock_waiting as usize + done == batch.len();
            if !all_asleep {
                asleep_since = None;
            } else if asleep_since.get_or_insert_with(std::time::Instant::now).elapsed() > std::time::Duration::from_secs(20) {
                let log = sh.borrow().log.lines.join("\n");
                simcore::driver::harness_error(&format!("storesim(sqlite): every operation in flight is asleep on a lock (deadlock inside the store) lock_waiting={lock_waiting} done={done}/{} gate: {}\n{log}", batch.len(), crate::gate::debug_state()));
            }
            // An operation that issues ROLLBACK itself (an explicit rollback on an error branch instead
            // of a dropped transaction) waits for it: the accounting above would never add up. If
            // nothing has moved for a while in real time, every thread is parked, and the parked
            // statements can account for every operation in flight, the system is taken to be
            // quiescent. (Never happens on the unchanged tree; a harness error would hide the change.)
            if let Some(k) = cancel_after {
                if running == 0 && snap.orphan_transactions == 0 && op_statements == 1 && lock_waiting == 0 && done == 0 && granted_in_batch == k {
                    // the caller goes away: its future is dropped while its next statement is parked
                    {
                        let mut s = sh.borrow_mut();
                        s.log.sched(format_args!("CANCEL: the operation's future is dropped after {k} statement(s); parked: {}", waiting.iter().map(|w| w.chars().take(30).collect::<String>()).collect::<Vec<_>>().join(" | ")));
                        s.cancel.notify_one();
                    }
                    cancel_after = None;
                    cancelled_in_phase = true;
                    let t0 = std::time::Instant::now();
                    while done_rx.try_recv().is_err() {
                        tokio::task::yield_now().await;
                        if t0.elapsed() > std::time::Duration::from_secs(60) {
                            simcore::driver::harness_error("storesim(sqlite): a cancelled operation never reported back");
                        }
                    }
                    done += 1;
                    sh.borrow_mut().cancel_target = None;
                    continue;
                }
            }
            let strict = op_statements + lock_waiting as usize + done == batch.len();
            let loose = !strict && waiting.len() + lock_waiting as usize + done >= batch.len() && stuck_since.map(|t| t.elapsed() > std::time::Duration::from_millis(400)).unwrap_or(false);
            if running == 0 && snap.orphan_transactions == 0 && !waiting.is_empty() && (strict || loose) {
                let k = tape.choose(waiting.len() as u32) as usize;
                {
                    let mut s = sh.borrow_mut();
                    let w = &waiting[k];
                    let head: String = w.chars().take(40).collect();
                    s.log.sched(format_args!("grant [{}/{}] {}… #{:08x}", k, waiting.len(), head, simcore::fnv(w.as_bytes()) as u32));
                }
                // Textually identical statements parked by different operations (two transactions
                // both about to BEGIN) cannot be told apart — which worker thread serves which task
                // is not observable — so they are released together, one after the other: whatever
                // the order, the same set of operations has advanced by the next decision.
                let dup = waiting.iter().filter(|w| **w == waiting[k]).count();
                let mut fail = None;
                if dup == 1 && crate::gate::can_fail(&waiting[k]) {
                    if let Some((at, code)) = phase.fail_stmt {
                        if failable_seen == at as u32 {
                            let code = crate::gate::FAULT_CODES[code as usize % crate::gate::FAULT_CODES.len()];
                            fail = Some(code);
                            let mut s = sh.borrow_mut();
                            s.faults_fired += 1;
                            s.log.sched(format_args!("FAULT: this statement fails with SQLite error {code}"));
                        }
                    }
                    failable_seen += 1;
                }
                granted_in_batch += 1;
                if fail.is_some() {
                    crate::gate::grant_and_wait_with(&waiting[k], fail);
                } else {
                    for _ in 0..dup {
                        crate::gate::grant_and_wait(&waiting[k]);
                    }
                }
                spins = 0;
                stuck_since = None;
            } else {
                spins += 1;
                if spins > 2_000 {
                    stuck_since.get_or_insert_with(std::time::Instant::now);
                }
                if spins > 400_000 && stuck_since.get_or_insert_with(std::time::Instant::now).elapsed() > std::time::Duration::from_secs(120) {
                    let log = sh.borrow().log.lines.join("\n");
                    simcore::driver::harness_error(&format!("storesim(sqlite): the system never became quiescent: parked={waiting:?} running={running} lock_waiting={lock_waiting} done={done}/{}\n{log}", batch.len()));
                }
                tokio::task::yield_now().await;
                if spins % 64 == 0 {
                    std::thread::sleep(std::time::Duration::from_micros(20));
                }
            }
        }
        if cancelled_in_phase {
            // the statement the cancelled operation had left behind has been flushed by now: this
            // is when the operation is over as far as the model is concerned
            let mut s = sh.borrow_mut();
            let Shared { seq, events, .. } = &mut *s;
            for e in events.iter_mut().filter(|e| e.out == Ret::Cancelled && e.ret == 0) {
                *seq += 1;
                e.ret = *seq;
            }
        }
        if sh.borrow().tx_left_open {
            break;
        }
    }
    drop(gates);
    if sh.borrow().tx_left_open {
        for h in handles {
            h.abort();
        }
        return;
    }
    for h in handles {
        let _ = h.await;
    }
}

/// Loads and the sweeping `delete_expired` are never cancelled (nothing to learn: a read has no
/// effect, the sweep reports a count nobody would see).
fn cancellable(op: &Op) -> bool {
    matches!(op, Op::Create { .. } | Op::Update { .. } | Op::UpdateTtl { .. } | Op::Delete { .. } | Op::ChangeId { .. })
}

fn viol(inv: &str, sig: String, detail: String) -> Violation {
    Violation { property: "C13".into(), invariant: inv.into(), signature: sig, detail }
}

pub fn execute(script: &Script, tape: &mut Tape, keep_log: bool) -> RunOut {
    crate::quiet_panics();
    let _ = crate::take_panics();
    seams::set_entropy(Some(0xC13));
    let t0 = seams::EPOCH_S * 1_000_000_000;
    seams::set_clock_ns(t0, 0);
    seams::reset_clock_reads();
    let sh = Rc::new(RefCell::new(Shared { seq: 0, events: Vec::new(), log: EventLog::new(keep_log || std::env::var("VERIF_KEEP_LOG").is_ok()), faults_fired: 0, cancel_target: None, cancel: Rc::new(tokio::sync::Notify::new()), tx_left_open: false }));
    let sqlite = script.backend == "sqlite";
    let mut counters: BTreeMap<String, u64> = BTreeMap::new();
    let mut violations: Vec<Violation> = Vec::new();
    let mut states: Vec<String> = Vec::new();
    let mut possible: BTreeSet<MState> = BTreeSet::new();
    possible.insert(MState::new());
    let mut explored = 0u64;
    let mut overlap_seen = false;
    let lock0 = tokio_facade::sync::LOCK_POINTS.load(std::sync::atomic::Ordering::Relaxed);
    let cont0 = tokio_facade::sync::LOCK_CONTENDED.load(std::sync::atomic::Ordering::Relaxed);

    let mut history: Vec<(i64, Vec<Event>)> = Vec::new();
    // one closure per phase: runs the phase, then checks its history
    let mut check_phase = |pi: usize, phase: &Phase, evs: Vec<Event>, now: i64, possible: &mut BTreeSet<MState>, violations: &mut Vec<Violation>, counters: &mut BTreeMap<String, u64>, states: &mut Vec<String>| {
        let mut c = |k: &str| *counters.entry(k.to_string()).or_insert(0) += 1;
        history.push((now, evs.clone()));
        let faults_fired = std::mem::take(&mut sh.borrow_mut().faults_fired);
        if faults_fired > 0 {
            c("fault_sqlite_statement_failed");
        }
        let mut others = 0u32;
        for e in &evs {
            if let Ret::Other(m) = &e.out {
                others += 1;
                if others > faults_fired {
                    {
                        // name the one cause that is a recorded finding, so that any other spurious error keeps its own signature
                        let cause = if m.contains("recursion limit exceeded") { " (recursion limit exceeded: state nested deeper than 128 levels)" } else { "" };
                        violations.push(viol("no-spurious-error", format!("{} {} -> Other{cause}", script.backend, op_kind(&e.op)), format!("phase{pi}: {} failed with {m}", op_str(&e.op))));
                    }
                } else {
                    c("op_failed_with_other_after_statement_fault");
                }
            }
            if let Ret::Loaded(Some((None, _))) = &e.out {
                violations.push(viol("load-returns-what-was-written", format!("{} load returns a state nobody wrote", script.backend), format!("phase{pi}: {} returned a state that is not byte-for-byte one of the states written", op_str(&e.op))));
            }
        }
        // overlapping operations?
        for a in &evs {
            for b in &evs {
                if a.task != b.task && a.invoke < b.ret && b.invoke < a.ret {
                    overlap_seen = true;
                }
            }
        }
        // probes about where the clock stands relative to deadlines
        for s in possible.iter().take(1) {
            for e in &evs {
                let ids: Vec<u8> = match &e.op {
                    Op::Create { id, .. } | Op::Update { id, .. } | Op::UpdateTtl { id, .. } | Op::Load { id } | Op::Delete { id } => vec![*id],
                    Op::ChangeId { old, new } => vec![*old, *new],
                    Op::DeleteExpired { .. } => vec![],
                };
                for id in ids {
                    if let Some((_, d)) = s.get(&id) {
                        if *d == now {
                            c("op_exactly_at_deadline");
                        } else if *d < now {
                            c("op_on_expired_record");
                        }
                    }
                }
            }
        }
        let mut next: BTreeSet<MState> = BTreeSet::new();
        for init in possible.iter() {
            next.extend(linearize(&evs, init, now, 0, &mut explored));
        }
        if next.is_empty() {
            // describe the phase compactly
            let mut per_task: BTreeMap<usize, Vec<String>> = BTreeMap::new();
            let mut sorted = evs.clone();
            sorted.sort_by_key(|e| e.invoke);
            for e in &sorted {
                per_task.entry(e.task).or_default().push(format!("{}->{}", op_kind(&e.op), ret_kind(&e.out)));
            }
            let shape = per_task.values().map(|v| v.join(",")).collect::<Vec<_>>().join(" || ");
            let init = possible.iter().next().cloned().unwrap_or_default();
            let rel: Vec<String> = init.iter().map(|(id, (_, d))| format!("id{id}:{}", if *d == now { "at-deadline" } else if *d < now { "expired" } else { "live" })).collect();
            // name the root cause: which named deviation(s), if any, would explain the history
            let mut cause: Option<String> = None;
            for relax in 1u8..4 {
                // replay the whole run so far under the relaxed model: a deviation in an earlier
                // phase usually shows only in a later one
                let mut poss: BTreeSet<MState> = BTreeSet::new();
                poss.insert(MState::new());
                for (t, h) in history.iter() {
                    let mut nx: BTreeSet<MState> = BTreeSet::new();
                    for init in poss.iter() {
                        nx.extend(linearize(h, init, *t, relax, &mut explored));
                    }
                    poss = nx.into_iter().take(64).collect();
                    if poss.is_empty() {
                        break;
                    }
                }
                if !poss.is_empty() {
                    cause = Some(RELAX_NAMES.iter().filter(|(b, _)| relax & b != 0).map(|(_, n)| *n).collect::<Vec<_>>().join("+"));
                    break;
                }
            }
            let signature = match &cause {
                Some(c) => format!("{} deviation: {c}", script.backend),
                None => format!("{} unexplained [{}] records={{{}}}", script.backend, shape, rel.join(",")),
            };
            violations.push(viol(
                "linearizable-map-with-expiry",
                signature,
                format!(
                    "phase{pi} at t={}ms: no sequential order of [{}] is consistent with a map id→(state,deadline) starting from {:?}",
                    (now - t0) / 1_000_000,
                    sorted.iter().map(|e| format!("task{} {} -> {} (seq {}..{})", e.task, op_str(&e.op), ret_str(&e.out), e.invoke, e.ret)).collect::<Vec<_>>().join("; "),
                    init.iter().map(|(id, (v, d))| format!("id{id}=(v{v}, deadline {}ms)", (d - t0) / 1_000_000)).collect::<Vec<_>>()
                ),
            ));
            // resynchronise: continue from an empty model is pointless; stop checking this run
            possible.clear();
            return false;
        }
        if next.len() > 1 {
            c("phase_with_several_possible_outcomes");
        }
        states.push(format!("{}|tasks{}|ops{}|records{}", script.backend, phase.tasks.len(), evs.len(), next.iter().next().map(|s| s.len()).unwrap_or(0)));
        // cap the set deterministically
        *possible = next.into_iter().take(64).collect();
        true
    };

    if !sqlite {
        // through the real `SessionStore` front (store_.rs), as the session machinery uses it
        let store: Arc<SessionStore> = Arc::new(SessionStore::new(shadow_memory_store::InMemorySessionStore::new()));
        for (pi, phase) in script.phases.iter().enumerate() {
            seams::advance_clock_ns(phase.advance_ms * 1_000_000);
            let now = seams::clock_ns();
            sh.borrow_mut().log.ev(format_args!("phase{pi} t={}ms", (now - t0) / 1_000_000));
            run_phase_memory(store.clone(), phase, tape, &sh);
            let evs = std::mem::take(&mut sh.borrow_mut().events);
            if !check_phase(pi, phase, evs, now, &mut possible, &mut violations, &mut counters, &mut states) {
                break;
            }
        }
    } else {
        let rt = tokio::runtime::Builder::new_current_thread().enable_time().rng_seed(tokio::runtime::RngSeed::from_bytes(b"pavex-verif")).build().expect("runtime");
        let local = tokio::task::LocalSet::new();
        let phases = script.phases.clone();
        let sh2 = sh.clone();
        local.block_on(&rt, async {
            use sqlx::sqlite::SqlitePoolOptions;
            // one shared in-memory database, one connection (= one sqlx worker thread) per task
            let pool = match SqlitePoolOptions::new().max_connections(3).min_connections(0).connect("sqlite::memory:").await {
                Ok(p) => p,
                Err(e) => simcore::driver::harness_error(&format!("cannot open sqlite::memory: {e}")),
            };
            let st = pavex_session_sqlx::SqliteSessionStore::new(pool.clone());
            if let Err(e) = st.migrate().await {
                simcore::driver::harness_error(&format!("sqlite migration failed: {e}"));
            }
            {
                // open all connections now, before statements start stopping at the turnstile
                let mut held = Vec::new();
                for _ in 0..3 {
                    match pool.acquire().await {
                        Ok(c) => held.push(c),
                        Err(e) => simcore::driver::harness_error(&format!("cannot open a pooled connection: {e}")),
                    }
                }
                // all three see the table created above?
                for c in held.iter_mut() {
                    use sqlx::Executor as _;
                    if let Err(e) = c.execute("SELECT count(*) FROM sessions").await {
                        simcore::driver::harness_error(&format!("pooled connections do not share the in-memory database: {e}"));
                    }
                }
            }
            tokio::task::yield_now().await;
            crate::gate::enable(true);
            let store: Arc<SessionStore> = Arc::new(SessionStore::new(st));
            for (pi, phase) in phases.iter().enumerate() {
                seams::advance_clock_ns(phase.advance_ms * 1_000_000);
                let now = seams::clock_ns();
                sh2.borrow_mut().log.ev(format_args!("phase{pi} t={}ms", (now - t0) / 1_000_000));
                run_phase_sqlite(store.clone(), phase, tape, &sh2).await;
                if sh2.borrow().tx_left_open {
                    violations.push(viol(
                        "no-transaction-left-open",
                        format!(
                            "sqlite a connection stays inside a transaction (cancelled operation: {})",
                            phase.cancel.and_then(|(t, o, _)| phase.tasks.get(t as usize).and_then(|ops| ops.get(o as usize))).map(op_kind).unwrap_or("none")
                        ),
                        format!("phase{pi}: every operation had returned or been cancelled, nothing was running or parked, and a pooled connection was still inside an open transaction (cancel={:?}): whatever the next callers write through that connection is never committed", phase.cancel),
                    ));
                    break;
                }
                if phase.cancel.is_some() && sh2.borrow().events.iter().any(|e| e.out == Ret::Cancelled) {
                    *counters.entry("fault_operation_cancelled".to_string()).or_insert(0) += 1;
                }
                let evs = std::mem::take(&mut sh2.borrow_mut().events);
                if !check_phase(pi, phase, evs, now, &mut possible, &mut violations, &mut counters, &mut states) {
                    break;
                }
            }
            crate::gate::enable(false);
            drop(store);
            pool.close().await;
        });
        drop(local);
        drop(rt);
    }
    let end = seams::clock_ns();
    seams::clear_clock();
    seams::set_entropy(None);
    let sh = Rc::try_unwrap(sh).ok().expect("shared log still referenced").into_inner();
    let mut out = RunOut::new(sh.log);
    out.violations = violations;
    out.counters = counters;
    out.states = states;
    out.sim_ns = (end - t0).max(0) as u64;
    out.count("linearization_states_explored", explored);
    out.count("lock_points", tokio_facade::sync::LOCK_POINTS.load(std::sync::atomic::Ordering::Relaxed) - lock0);
    out.count("lock_contended", tokio_facade::sync::LOCK_CONTENDED.load(std::sync::atomic::Ordering::Relaxed) - cont0);
    if overlap_seen {
        out.count("runs_with_overlapping_operations", 1);
    }
    if script.phases.iter().any(|p| p.advance_ms < 0) {
        out.count("fault_clock_jump_back", 1);
    }
    out.count(if sqlite { "runs_sqlite" } else { "runs_memory" }, 1);
    out.count("sqlite_statements_scheduled", crate::gate::GATED.swap(0, std::sync::atomic::Ordering::Relaxed));
    out.count("sqlite_statements_failed", crate::gate::FAILED.swap(0, std::sync::atomic::Ordering::Relaxed));
    out.count("sqlite_statement_failed_inside_transaction", crate::gate::FAILED_IN_TX.swap(0, std::sync::atomic::Ordering::Relaxed));
    out.nontrivial = script.phases.iter().map(|p| p.tasks.iter().map(|t| t.len()).sum::<usize>()).sum::<usize>() >= 2;
    out
}

fn op_kind(op: &Op) -> &'static str {
    match op {
        Op::Create { .. } => "create",
        Op::Update { .. } => "update",
        Op::UpdateTtl { .. } => "update_ttl",
        Op::Load { .. } => "load",
        Op::Delete { .. } => "delete",
        Op::ChangeId { .. } => "change_id",
        Op::DeleteExpired { .. } => "delete_expired",
    }
}

fn ret_kind(r: &Ret) -> &'static str {
    match r {
        Ret::Ok => "Ok",
        Ret::UnknownId => "UnknownId",
        Ret::DuplicateId => "DuplicateId",
        Ret::Other(_) => "Other",
        Ret::Cancelled => "Cancelled",
        Ret::Panicked => "Panicked",
        Ret::Loaded(None) => "None",
        Ret::Loaded(Some(_)) => "Some",
        Ret::Deleted(_) => "n",
    }
}

impl Sim for StoreSim {
    type Script = Script;
    fn name() -> &'static str {
        "storesim"
    }
    fn properties() -> &'static [&'static str] {
        &["C13"]
    }
    fn runs(_p: &str, tier: Tier) -> u64 {
        match tier {
            Tier::Quick => 100_000,
            Tier::Thorough => 3_000_000,
        }
    }
    fn meta(_p: &str) -> SimMeta {
        SimMeta {
            rule: "Each run picks a backend (memory 2/3, sqlite 1/3), 1-3 ids and 1-5 phases; a phase is 1-3 tasks with 1-4 operations each (≤ 10 per phase) from {create, update, update_ttl, load, delete, change_id, delete_expired(batch)} with unique states (nested values, unicode, empty/long strings, extreme numbers, SQL metacharacters) and TTLs from 0 to an hour; the wall clock is frozen inside a phase and steps between phases by amounts aimed at the deadlines (−1, exactly, +1 unit) with occasional backward jumps. memory: every Mutex::lock() is a scheduling point and the tape picks the task to poll; sqlite: a turnstile releases operations, a pool of one connection serialises statements. The recorded invoke/return history of each phase must have a linearisation accepted by the reference model. Non-trivial: ≥ 2 operations. Distinct: distinct hash of the invoke/return event sequence.".into(),
            real: vec!["pavex_session_memory_store::InMemorySessionStore (repository source, compiled through a shadow manifest)".into(), "pavex_session_sqlx::SqliteSessionStore + sqlx + bundled SQLite (sqlite::memory:, one connection)".into(), "jiff Timestamp::now and SQLite unixepoch() on the simulated clock".into()],
            stub: vec!["tokio::sync::Mutex → facade with a yield point at lock() (memory arm only)".into(), "task scheduling: choice tape (memory), turnstile + FIFO single connection (sqlite)".into(), "wall clock, OS entropy: libc seams".into()],
            assumptions: vec![
                "create on a live id: the return value is unconstrained (memory answers DuplicateId, SQLite answers Ok without writing; an upstream test pins the latter)".into(),
                "change_id with an absent old id AND a live new id may answer either error".into(),
                "sqlite arm: all instants and TTLs are whole seconds, so the store's whole-second deadlines introduce no rounding ambiguity".into(),
                "sqlx's worker threads are real OS threads; every SQL statement stops at a link-time turnstile in sqlite3_step and is released by the tape only when the system is quiescent, so statement-level interleavings are explored and replay exactly (verified by the double-run diff); only the first step of a statement is a scheduling point".into(),
            ],
            fault_counters: vec!["fault_clock_jump_back".into(), "fault_sqlite_statement_failed".into(), "fault_operation_cancelled".into()],
            expected_probes: vec!["op_failed_with_other_after_statement_fault".into(), "sqlite_statement_failed_inside_transaction".into(), "op_exactly_at_deadline".into(), "op_on_expired_record".into(), "runs_with_overlapping_operations".into(), "lock_contended".into(), "phase_with_several_possible_outcomes".into(), "runs_sqlite".into(), "runs_memory".into()],
        }
    }

    fn generate(rng: &mut Rng, _tier: Tier, _p: &str) -> Script {
        let sqlite = rng.chance(1, 3);
        let unit: u64 = if sqlite { 1000 } else { *rng.pick(&[1, 10, 1000]) };
        let n_ids = rng.range(1, 3) as u8;
        let ttls: Vec<u64> = vec![0, unit, 2 * unit, 5 * unit, 3_600_000];
        let n_phases = rng.usize(1, 5);
        let mut val = 0u32;
        let mut phases = Vec::new();
        let mut last_ttl = unit;
        let allow_back = rng.chance(1, 4);
        let mut has_delete_expired = false;
        for pi in 0..n_phases {
            let advance_ms: i64 = if pi == 0 {
                0
            } else {
                match rng.below(9) {
                    0 => 0,
                    1 => last_ttl as i64 - unit as i64,
                    2 | 3 => last_ttl as i64,
                    4 => last_ttl as i64 + unit as i64,
                    5 => unit as i64,
                    6 if allow_back => -(unit as i64) * rng.range(1, 3) as i64,
                    7 => 10 * unit as i64,
                    _ => (rng.below(6) * unit) as i64,
                }
            };
            let n_tasks = match rng.below(4) {
                0 => 1,
                1 | 2 => 2,
                _ => 3,
            };
            let mut budget = 10usize;
            let mut tasks = Vec::new();
            for _ in 0..n_tasks {
                let k = rng.usize(1, 4).min(budget.max(1));
                budget = budget.saturating_sub(k);
                let mut ops = Vec::new();
                for _ in 0..k {
                    let id = rng.below(n_ids as u64) as u8;
                    // one TTL in forty is more than any timestamp can hold ("never expires")
                    let ttl_ms = if rng.chance(1, 40) { u64::MAX } else { *rng.pick(&ttls) };
                    let op = match rng.weighted(&[6, 4, 2, 6, 3, 3, 1]) {
                        0 => {
                            val += 1;
                            last_ttl = if ttl_ms == u64::MAX { unit } else { ttl_ms.min(5 * unit) };
                            Op::Create { id, ttl_ms, val: if rng.chance(1, 8) { 0 } else { val } }
                        }
                        1 => {
                            val += 1;
                            last_ttl = if ttl_ms == u64::MAX { unit } else { ttl_ms.min(5 * unit) };
                            Op::Update { id, ttl_ms, val: if rng.chance(1, 6) { 0 } else { val } }
                        }
                        2 => Op::UpdateTtl { id, ttl_ms },
                        3 => Op::Load { id },
                        4 => Op::Delete { id },
                        5 => {
                            let new = if rng.chance(1, 15) { id } else if n_ids > 1 { (id + 1 + rng.below(n_ids as u64 - 1) as u8) % n_ids } else { (id + 1) % 10 };
                            Op::ChangeId { old: id, new }
                        }
                        _ => {
                            has_delete_expired = true;
                            Op::DeleteExpired { batch: *rng.pick(&[None, Some(1), Some(2)]) }
                        }
                    };
                    ops.push(op);
                }
                tasks.push(ops);
            }
            phases.push(Phase { advance_ms, tasks, fail_stmt: None, cancel: None });
        }
        let _ = has_delete_expired;
        // late draw (everything above is the same function of the seed as before): one SQLite run
        // in three has a phase in which one statement fails (disk full / I/O error / busy)
        if sqlite && rng.chance(1, 3) {
            let pi = rng.usize(0, phases.len() - 1);
            phases[pi].fail_stmt = Some((rng.below(6) as u8, rng.below(3) as u8));
        }
        // late draw: one SQLite run in four cancels an operation in mid-flight (the caller's future is
        // dropped between two of its statements)
        if sqlite && rng.chance(1, 4) {
            let pi = rng.usize(0, phases.len() - 1);
            let t = rng.usize(0, phases[pi].tasks.len() - 1);
            let o = rng.usize(0, phases[pi].tasks[t].len() - 1);
            phases[pi].cancel = Some((t as u8, o as u8, rng.below(4) as u8));
        }
        Script { backend: if sqlite { "sqlite".into() } else { "memory".into() }, phases }
    }

    fn run(script: &Script, tape: &mut Tape, keep_log: bool) -> RunOut {
        execute(script, tape, keep_log)
    }

    fn shrink(s: &Script) -> Vec<Script> {
        let mut c = Vec::new();
        for i in 0..s.phases.len() {
            let mut t = s.clone();
            let removed = t.phases.remove(i);
            // keep the clock where it was for the following phase
            if i < t.phases.len() {
                t.phases[i].advance_ms += removed.advance_ms;
            }
            c.push(t);
        }
        for i in 0..s.phases.len() {
            for j in 0..s.phases[i].tasks.len() {
                let mut t = s.clone();
                t.phases[i].tasks.remove(j);
                if !t.phases[i].tasks.is_empty() {
                    c.push(t);
                }
                for k in 0..s.phases[i].tasks[j].len() {
                    let mut t = s.clone();
                    t.phases[i].tasks[j].remove(k);
                    if t.phases[i].tasks[j].is_empty() {
                        t.phases[i].tasks.remove(j);
                    }
                    if !t.phases[i].tasks.is_empty() {
                        c.push(t);
                    }
                }
            }
            // merge two tasks into one (less concurrency)
            if s.phases[i].tasks.len() >= 2 {
                let mut t = s.clone();
                let b = t.phases[i].tasks.remove(1);
                t.phases[i].tasks[0].extend(b);
                c.push(t);
            }
            // split a phase: the first op of some task becomes its own earlier phase
            if s.phases[i].tasks.iter().map(|t| t.len()).sum::<usize>() >= 2 {
                for j in 0..s.phases[i].tasks.len() {
                    let mut t = s.clone();
                    let op = t.phases[i].tasks[j].remove(0);
                    if t.phases[i].tasks[j].is_empty() {
                        t.phases[i].tasks.remove(j);
                    }
                    let adv = t.phases[i].advance_ms;
                    t.phases[i].advance_ms = 0;
                    t.phases.insert(i, Phase { advance_ms: adv, tasks: vec![vec![op]], fail_stmt: None, cancel: None });
                    c.push(t);
                }
            }
            if s.phases[i].advance_ms < 0 {
                let mut t = s.clone();
                t.phases[i].advance_ms = 0;
                c.push(t);
            }
            if let Some((ct, co, ck)) = s.phases[i].cancel {
                let mut t = s.clone();
                t.phases[i].cancel = None;
                c.push(t);
                if ck > 0 {
                    let mut t = s.clone();
                    t.phases[i].cancel = Some((ct, co, ck - 1));
                    c.push(t);
                }
            }
            if let Some((at, code)) = s.phases[i].fail_stmt {
                let mut t = s.clone();
                t.phases[i].fail_stmt = None;
                c.push(t);
                if at > 0 {
                    let mut t = s.clone();
                    t.phases[i].fail_stmt = Some((at - 1, code));
                    c.push(t);
                }
            }
        }
        c
    }
}
