//! The seeded scheduler: simulated threads on one OS thread.
//!
//! Every simulated thread (the acceptor, each worker, each client, the scenario driver) is a
//! future; a server thread additionally owns a nested `LocalSet`, which stands for the
//! current-thread runtime + `LocalSet` the real thread would block on — when the thread's main
//! future returns, the `LocalSet` is dropped and its connection tasks are cancelled, exactly as
//! when a real thread exits and drops its runtime.
//!
//! One root future, driven by a single paused current-thread tokio runtime, performs ONE
//! scheduling step per poll: it asks the choice tape which runnable thread to poll next. Wakers
//! of all threads funnel into per-thread flags plus the root waker, so tokio's paused clock
//! advances only when no simulated thread can make progress (discrete-event time).
//!
//! `preempt(label)` is the synchronous preemption point called by the cfg-gated hooks in the
//! server between consecutive cross-thread channel operations: still on the caller's stack it
//! polls a tape-chosen number of *other* runnable threads (never one already on the stack) and
//! returns — everyone else moves, the preempted thread does not.
use std::cell::RefCell;
use std::collections::BTreeMap;
use std::future::Future;
use std::pin::Pin;
use std::sync::atomic::{AtomicBool, Ordering};
use std::sync::{Arc, Mutex};
use std::task::{Context, Poll, Wake, Waker};

use simcore::{EventLog, Tape};

type BoxFut = Pin<Box<dyn Future<Output = ()>>>;

struct RootWaker {
    waker: Mutex<Option<Waker>>,
}

struct WakeFlag {
    flag: AtomicBool,
    root: Arc<RootWaker>,
}

impl Wake for WakeFlag {
    fn wake(self: Arc<Self>) {
        self.wake_by_ref();
    }
    fn wake_by_ref(self: &Arc<Self>) {
        self.flag.store(true, Ordering::SeqCst);
        let w = self.root.waker.lock().unwrap().clone();
        if let Some(w) = w {
            w.wake();
        }
    }
}

struct Slot {
    name: String,
    fut: Option<BoxFut>,
    flag: Arc<WakeFlag>,
    done: bool,
    weight: u32,
    polls: u64,
    /// simulated time (ns since start) until which the thread is stuck in a blocking call
    blocked_until: u64,
}

pub struct Inner {
    pub tape: Tape,
    pub log: EventLog,
    threads: Vec<Slot>,
    stack: Vec<usize>,
    root: Arc<RootWaker>,
    pub steps: u64,
    pub max_steps: u64,
    pub overflow: bool,
    pub counters: BTreeMap<String, u64>,
    /// name prefix → weight (default 8); lets a run starve a thread
    pub weights: Vec<(String, u32)>,
    pub preempt_den: u32,
    pub max_depth: usize,
    t0: Option<tokio::time::Instant>,
}

thread_local! {
    static SCHED: RefCell<Option<Inner>> = const { RefCell::new(None) };
}

pub fn install(tape: Tape, log: EventLog, max_steps: u64) {
    SCHED.with(|s| {
        *s.borrow_mut() = Some(Inner {
            tape,
            log,
            threads: Vec::new(),
            stack: Vec::new(),
            root: Arc::new(RootWaker { waker: Mutex::new(None) }),
            steps: 0,
            max_steps,
            overflow: false,
            counters: BTreeMap::new(),
            weights: Vec::new(),
            preempt_den: 8,
            max_depth: 3,
            t0: None,
        })
    });
}

/// Tear down: drop every remaining thread (in id order), then hand back tape and log.
pub fn uninstall() -> Inner {
    // Drop the futures outside of the borrow: dropping a LocalSet cancels tasks whose
    // destructors log.
    loop {
        let f = SCHED.with(|s| {
            let mut b = s.borrow_mut();
            let inner = b.as_mut().expect("scheduler not installed");
            inner.threads.iter_mut().find_map(|t| t.fut.take())
        });
        match f {
            Some(f) => drop(f),
            None => break,
        }
    }
    SCHED.with(|s| s.borrow_mut().take().expect("scheduler not installed"))
}

pub fn with<R>(f: impl FnOnce(&mut Inner) -> R) -> R {
    SCHED.with(|s| f(s.borrow_mut().as_mut().expect("scheduler not installed")))
}

pub fn try_with<R>(f: impl FnOnce(&mut Inner) -> R) -> Option<R> {
    SCHED.with(|s| match s.try_borrow_mut() {
        Ok(mut b) => b.as_mut().map(f),
        Err(_) => None,
    })
}

/// Simulated time since the run started, in nanoseconds (tokio's paused clock).
pub fn now_ns() -> u64 {
    let t0 = with(|s| s.t0);
    match t0 {
        Some(t0) => tokio::time::Instant::now().duration_since(t0).as_nanos() as u64,
        None => 0,
    }
}

pub fn start_clock() {
    let now = tokio::time::Instant::now();
    with(|s| s.t0 = Some(now));
}

#[macro_export]
macro_rules! slog {
    ($($arg:tt)*) => {
        $crate::sched::log_ev(format_args!($($arg)*))
    };
}

pub fn log_ev(args: std::fmt::Arguments<'_>) -> u64 {
    let t = now_ns();
    let who = current_name();
    with(|s| s.log.ev(format_args!("t={}ns [{}] {}", t, who, args)))
}

pub fn log_sched(args: std::fmt::Arguments<'_>) -> u64 {
    with(|s| s.log.sched(args))
}

pub fn seq() -> u64 {
    with(|s| s.log.seq)
}

pub fn count(k: &str, n: u64) {
    with(|s| *s.counters.entry(k.to_string()).or_insert(0) += n);
}

pub fn choose(n: u32) -> u32 {
    with(|s| s.tape.choose(n))
}

pub fn current_name() -> String {
    with(|s| s.stack.last().map(|i| s.threads[*i].name.clone()).unwrap_or_else(|| "rt".to_string()))
}

/// Register a simulated thread. `local_set`: give it its own `LocalSet` (server threads).
pub fn spawn(name: &str, local_set: bool, body: impl FnOnce() -> BoxFut + 'static) -> usize {
    let fut: BoxFut = if local_set {
        Box::pin(tokio::task::unconstrained(async move {
            let ls = tokio::task::LocalSet::new();
            ls.run_until(body()).await;
            // `ls` dropped here: the thread's remaining tasks are cancelled.
        }))
    } else {
        Box::pin(tokio::task::unconstrained(async move { body().await }))
    };
    with(|s| {
        let weight = s.weights.iter().find(|(p, _)| name.starts_with(p.as_str())).map(|(_, w)| *w).unwrap_or(8);
        let flag = Arc::new(WakeFlag { flag: AtomicBool::new(true), root: s.root.clone() });
        s.threads.push(Slot { name: name.to_string(), fut: Some(fut), flag, done: false, weight, polls: 0, blocked_until: 0 });
        let id = s.threads.len() - 1;
        s.log.sched(format_args!("spawn thread {name}"));
        id
    })
}

pub fn is_done(id: usize) -> bool {
    with(|s| s.threads[id].done)
}

fn runnable(s: &Inner) -> Vec<usize> {
    let now = match s.t0 {
        Some(t0) => tokio::time::Instant::now().duration_since(t0).as_nanos() as u64,
        None => 0,
    };
    s.threads
        .iter()
        .enumerate()
        .filter(|(_, t)| !t.done && t.fut.is_some() && t.flag.flag.load(Ordering::SeqCst) && t.blocked_until <= now)
        .map(|(i, _)| i)
        .collect()
}

fn pick(s: &mut Inner) -> Option<usize> {
    let r = runnable(s);
    if r.is_empty() {
        return None;
    }
    let total: u32 = r.iter().map(|i| s.threads[*i].weight).sum();
    let mut x = s.tape.choose(total);
    for i in &r {
        let w = s.threads[*i].weight;
        if x < w {
            return Some(*i);
        }
        x -= w;
    }
    r.last().copied()
}

fn poll_thread(i: usize, why: &str) {
    let (mut fut, waker) = with(|s| {
        let t = &mut s.threads[i];
        t.flag.flag.store(false, Ordering::SeqCst);
        t.polls += 1;
        let fut = t.fut.take().expect("thread already on the stack");
        let waker = Waker::from(t.flag.clone());
        let name = t.name.clone();
        s.stack.push(i);
        s.steps += 1;
        s.log.sched(format_args!("{why}{name}"));
        (fut, waker)
    });
    let mut cx = Context::from_waker(&waker);
    let r = fut.as_mut().poll(&mut cx);
    let finished = with(|s| {
        s.stack.pop();
        if r.is_ready() {
            s.threads[i].done = true;
            let name = s.threads[i].name.clone();
            s.log.sched(format_args!("thread {name} exits"));
            true
        } else {
            false
        }
    });
    if finished {
        drop(fut);
    } else {
        with(|s| s.threads[i].fut = Some(fut));
    }
}

/// The calling simulated thread is stuck in a blocking (non-async) call for `d`: the scheduler will
/// not poll the thread — none of its tasks — until the simulated clock has moved on by `d`. This
/// is what a CPU-bound or blocking handler does to a real worker thread.
pub async fn block_current_thread(d: std::time::Duration) {
    let until = now_ns() + d.as_nanos() as u64;
    let root = with(|s| {
        if let Some(i) = s.stack.last().copied() {
            s.threads[i].blocked_until = until;
        }
        s.root.clone()
    });
    // Wakes that reach the thread while it is blocked are remembered in its flag but cannot make
    // it runnable; make sure the scheduler looks again at the instant the thread unblocks.
    tokio::spawn(async move {
        tokio::time::sleep(d).await;
        let w = root.waker.lock().unwrap().clone();
        if let Some(w) = w {
            w.wake();
        }
    });
    tokio::time::sleep(d).await;
}

/// Called by the `nanosleep` seam (see `seams`): code running on a simulated thread has just asked the
/// OS to sleep (`std::thread::sleep` in async code, a blocking back-off, …). The call returns at once
/// in real time; in simulated time the thread is stuck for `ns` more nanoseconds from the moment it
/// next gives up the CPU (what runs between the sleep and the next await is not delayed: a sound
/// under-approximation of how long the thread is deaf). Returns false when no simulated thread is
/// running (the caller then sleeps for real).
pub fn note_blocking_sleep(ns: u64) -> bool {
    let r = try_with(|s| {
        let i = s.stack.last().copied()?;
        let t0 = s.t0?;
        let now = tokio::time::Instant::now().duration_since(t0).as_nanos() as u64;
        let t = &mut s.threads[i];
        t.blocked_until = t.blocked_until.max(now).saturating_add(ns);
        *s.counters.entry("os_sleep_on_a_simulated_thread".into()).or_insert(0) += 1;
        Some((t.blocked_until - now, s.root.clone()))
    });
    match r {
        Some(Some((d, root))) => {
            // look again at the instant the thread unblocks
            tokio::spawn(async move {
                tokio::time::sleep(std::time::Duration::from_nanos(d)).await;
                let w = root.waker.lock().unwrap().clone();
                if let Some(w) = w {
                    w.wake();
                }
            });
            true
        }
        _ => false,
    }
}

/// Synchronous preemption point (see module docs).
pub fn preempt(label: &'static str) {
    let n = match try_with(|s| {
        if s.stack.is_empty() || s.stack.len() > s.max_depth {
            0
        } else {
            let d = s.preempt_den.max(3);
            let x = s.tape.choose(d);
            if x + 1 == d {
                2
            } else if x + 3 >= d {
                1
            } else {
                0
            }
        }
    }) {
        Some(n) => n,
        None => return,
    };
    for _ in 0..n {
        let p = with(|s| {
            if s.steps >= s.max_steps {
                return None;
            }
            pick(s)
        });
        match p {
            Some(i) => {
                with(|s| *s.counters.entry("preemptions_taken".into()).or_insert(0) += 1);
                poll_thread(i, &format!("preempt@{label}→"));
            }
            None => break,
        }
    }
}

/// The root future: resolves when thread `main` has finished (or the step cap is hit).
pub fn root(main: usize) -> impl Future<Output = ()> {
    std::future::poll_fn(move |cx| {
        let p = with(|s| {
            *s.root.waker.lock().unwrap() = Some(cx.waker().clone());
            if s.threads[main].done {
                return Err(());
            }
            if s.steps >= s.max_steps {
                s.overflow = true;
                return Err(());
            }
            Ok(pick(s))
        });
        match p {
            Err(()) => Poll::Ready(()),
            Ok(None) => Poll::Pending,
            Ok(Some(i)) => {
                poll_thread(i, "run ");
                let again = with(|s| s.threads[main].done || !runnable(s).is_empty());
                if again {
                    cx.waker().wake_by_ref();
                }
                Poll::Pending
            }
        }
    })
}

/// Build the single runtime a run uses: current-thread, time only, clock paused.
pub fn runtime() -> tokio::runtime::Runtime {
    tokio::runtime::Builder::new_current_thread()
        .enable_time()
        .start_paused(true)
        // tokio's internal PRNG (watch::BigNotify slot choice, select! branch order) is a source of
        // nondeterminism of its own: pin it (needs --cfg tokio_unstable, set for this workspace only)
        .rng_seed(tokio::runtime::RngSeed::from_bytes(b"pavex-verif"))
        .build()
        .expect("runtime")
}
