//! Simulated sockets: in-memory byte pipes with a seeded capacity, a listener with a backlog,
//! and per-connection bookkeeping that oracles read afterwards. Every read/write is logged with
//! the simulator's global sequence number.
use std::collections::VecDeque;
use std::io;
use std::net::SocketAddr;
use std::pin::Pin;
use std::sync::{Arc, Mutex};
use std::task::{Context, Poll, Waker};

use tokio::io::{AsyncRead, AsyncWrite, ReadBuf};

use crate::sched;

#[derive(Default)]
pub struct Pipe {
    buf: VecDeque<u8>,
    cap: usize,
    /// writer has shut down / been dropped: reader sees EOF after draining
    pub w_closed: bool,
    /// reader has been dropped: writer gets BrokenPipe
    pub r_closed: bool,
    /// connection reset: both directions error
    pub reset: bool,
    r_waker: Option<Waker>,
    w_waker: Option<Waker>,
    pub written: u64,
    pub read: u64,
    /// sequence number of the first read attempt by the reader (even if it returned Pending)
    pub first_read_poll_seq: Option<u64>,
    /// sequence number at which the reader had consumed `read` bytes: (seq, total)
    pub read_marks: Vec<(u64, u64)>,
    pub write_marks: Vec<(u64, u64)>,
}

pub type SharedPipe = Arc<Mutex<Pipe>>;

pub fn pipe(cap: usize) -> SharedPipe {
    Arc::new(Mutex::new(Pipe { cap: cap.max(1), ..Default::default() }))
}

#[derive(Clone, Copy, PartialEq, Eq, Debug)]
pub enum Side {
    Client,
    Server,
}

pub struct SimStream {
    pub conn: usize,
    pub side: Side,
    rd: SharedPipe,
    wr: SharedPipe,
    /// call the scheduler's preemption point around socket operations (server side only)
    preempt: bool,
}

/// A connected pair: (client half, server half), plus handles on both pipes for the oracle.
pub struct ConnPipes {
    pub c2s: SharedPipe,
    pub s2c: SharedPipe,
}

pub fn connection(conn: usize, cap_c2s: usize, cap_s2c: usize, preempt_server: bool) -> (SimStream, SimStream, ConnPipes) {
    let c2s = pipe(cap_c2s);
    let s2c = pipe(cap_s2c);
    let client = SimStream { conn, side: Side::Client, rd: s2c.clone(), wr: c2s.clone(), preempt: false };
    let server = SimStream { conn, side: Side::Server, rd: c2s.clone(), wr: s2c.clone(), preempt: preempt_server };
    (client, server, ConnPipes { c2s, s2c })
}

impl SimStream {
    /// Abortive close: both directions fail from now on.
    pub fn reset(&self) {
        for p in [&self.rd, &self.wr] {
            let mut g = p.lock().unwrap();
            g.reset = true;
            let (a, b) = (g.r_waker.take(), g.w_waker.take());
            drop(g);
            if let Some(w) = a {
                w.wake();
            }
            if let Some(w) = b {
                w.wake();
            }
        }
    }
}

impl AsyncRead for SimStream {
    fn poll_read(self: Pin<&mut Self>, cx: &mut Context<'_>, buf: &mut ReadBuf<'_>) -> Poll<io::Result<()>> {
        let me = self.get_mut();
        if me.preempt {
            sched::preempt("net:before-read");
        }
        let seq = sched::seq();
        let mut g = me.rd.lock().unwrap();
        if g.first_read_poll_seq.is_none() {
            g.first_read_poll_seq = Some(seq);
        }
        if g.reset {
            return Poll::Ready(Err(io::Error::new(io::ErrorKind::ConnectionReset, "simulated reset")));
        }
        if g.buf.is_empty() {
            if g.w_closed {
                drop(g);
                crate::slog!("conn{} {:?} read EOF", me.conn, me.side);
                return Poll::Ready(Ok(()));
            }
            g.r_waker = Some(cx.waker().clone());
            return Poll::Pending;
        }
        let n = buf.remaining().min(g.buf.len());
        let (a, b) = g.buf.as_slices();
        let k = n.min(a.len());
        buf.put_slice(&a[..k]);
        if k < n {
            buf.put_slice(&b[..n - k]);
        }
        g.buf.drain(..n);
        g.read += n as u64;
        let total = g.read;
        let w = g.w_waker.take();
        drop(g);
        let s = crate::slog!("conn{} {:?} read {} bytes (total {})", me.conn, me.side, n, total);
        me.rd.lock().unwrap().read_marks.push((s, total));
        if let Some(w) = w {
            w.wake();
        }
        Poll::Ready(Ok(()))
    }
}

impl AsyncWrite for SimStream {
    fn poll_write(self: Pin<&mut Self>, cx: &mut Context<'_>, data: &[u8]) -> Poll<io::Result<usize>> {
        let me = self.get_mut();
        if me.preempt {
            sched::preempt("net:before-write");
        }
        let mut g = me.wr.lock().unwrap();
        if g.reset {
            return Poll::Ready(Err(io::Error::new(io::ErrorKind::ConnectionReset, "simulated reset")));
        }
        if g.r_closed {
            return Poll::Ready(Err(io::Error::new(io::ErrorKind::BrokenPipe, "peer closed")));
        }
        if g.w_closed {
            return Poll::Ready(Err(io::Error::new(io::ErrorKind::BrokenPipe, "write after shutdown")));
        }
        if data.is_empty() {
            return Poll::Ready(Ok(0));
        }
        let room = g.cap.saturating_sub(g.buf.len());
        if room == 0 {
            g.w_waker = Some(cx.waker().clone());
            return Poll::Pending;
        }
        let n = room.min(data.len());
        g.buf.extend(&data[..n]);
        g.written += n as u64;
        let total = g.written;
        let r = g.r_waker.take();
        drop(g);
        let s = crate::slog!("conn{} {:?} wrote {} bytes (total {})", me.conn, me.side, n, total);
        me.wr.lock().unwrap().write_marks.push((s, total));
        if let Some(r) = r {
            r.wake();
        }
        Poll::Ready(Ok(n))
    }

    fn poll_flush(self: Pin<&mut Self>, _cx: &mut Context<'_>) -> Poll<io::Result<()>> {
        Poll::Ready(Ok(()))
    }

    fn poll_shutdown(self: Pin<&mut Self>, _cx: &mut Context<'_>) -> Poll<io::Result<()>> {
        let me = self.get_mut();
        let mut g = me.wr.lock().unwrap();
        if !g.w_closed {
            g.w_closed = true;
            let r = g.r_waker.take();
            drop(g);
            crate::slog!("conn{} {:?} shutdown(write)", me.conn, me.side);
            if let Some(r) = r {
                r.wake();
            }
        }
        Poll::Ready(Ok(()))
    }
}

impl Drop for SimStream {
    fn drop(&mut self) {
        let mut wakers = Vec::new();
        {
            let mut g = self.wr.lock().unwrap();
            g.w_closed = true;
            wakers.extend(g.r_waker.take());
        }
        {
            let mut g = self.rd.lock().unwrap();
            g.r_closed = true;
            wakers.extend(g.w_waker.take());
        }
        // logging from a destructor is fine: it draws nothing from the tape
        if sched::try_with(|_| ()).is_some() {
            crate::slog!("conn{} {:?} socket dropped", self.conn, self.side);
        }
        for w in wakers {
            w.wake();
        }
    }
}

// ---------------------------------------------------------------------------------------------

pub struct ListenerState {
    backlog: VecDeque<(SimStream, SocketAddr)>,
    waker: Option<Waker>,
    pub closed: bool,
    pub accepted: u64,
    /// (connection id, sequence number) of every connection handed out by accept()
    pub accepted_conns: Vec<(usize, u64)>,
    /// fault: the next `fail_next` accept attempts that find a pending connection fail with EMFILE
    /// (the process is out of file descriptors); the connection stays in the backlog
    pub fail_next: u32,
    errs_in_row: u32,
    pub accept_errors: u64,
}

pub type SharedListener = Arc<Mutex<ListenerState>>;

pub struct SimListenerImpl {
    pub st: SharedListener,
    pub addr: SocketAddr,
}

pub fn listener(port: u16) -> (SimListenerImpl, SharedListener) {
    let st = Arc::new(Mutex::new(ListenerState { backlog: VecDeque::new(), waker: None, closed: false, accepted: 0, accepted_conns: Vec::new(), fail_next: 0, errs_in_row: 0, accept_errors: 0 }));
    (SimListenerImpl { st: st.clone(), addr: SocketAddr::from(([10, 0, 0, 1], port)) }, st)
}

/// Client side of `connect()`: refused if the listener is gone.
pub fn connect(l: &SharedListener, server_half: SimStream, peer: SocketAddr) -> Result<(), SimStream> {
    let mut g = l.lock().unwrap();
    if g.closed {
        return Err(server_half);
    }
    g.backlog.push_back((server_half, peer));
    let w = g.waker.take();
    drop(g);
    if let Some(w) = w {
        w.wake();
    }
    Ok(())
}

impl pavex::server::sim::SimListener for SimListenerImpl {
    fn poll_accept(&self, cx: &mut Context<'_>) -> Poll<io::Result<(Box<dyn pavex::server::sim::SimIo>, SocketAddr)>> {
        let mut g = self.st.lock().unwrap();
        if g.fail_next > 0 && !g.backlog.is_empty() {
            g.fail_next -= 1;
            g.accept_errors += 1;
            g.errs_in_row += 1;
            if g.accept_errors == 1 || g.fail_next == 0 {
                sched::count(if g.fail_next == 0 { "fault_accept_emfile_window_exhausted" } else { "fault_accept_emfile_fired" }, 1);
            }
            // tokio's listener takes part in cooperative budgeting: a task that keeps getting results
            // out of it is made to yield after 128 of them. The simulated threads run unconstrained,
            // so the yield is reproduced here.
            if g.errs_in_row % 128 == 0 {
                drop(g);
                cx.waker().wake_by_ref();
                return Poll::Pending;
            }
            return Poll::Ready(Err(io::Error::from_raw_os_error(libc::EMFILE)));
        }
        g.errs_in_row = 0;
        match g.backlog.pop_front() {
            Some((s, a)) => {
                g.accepted += 1;
                drop(g);
                let q = crate::slog!("listener accept() returns conn{} peer={}", s.conn, a);
                self.st.lock().unwrap().accepted_conns.push((s.conn, q));
                Poll::Ready(Ok((Box::new(s), a)))
            }
            None => {
                g.waker = Some(cx.waker().clone());
                Poll::Pending
            }
        }
    }
    fn local_addr(&self) -> io::Result<SocketAddr> {
        Ok(self.addr)
    }
}

impl Drop for SimListenerImpl {
    fn drop(&mut self) {
        let dropped: Vec<(SimStream, SocketAddr)> = {
            let mut g = self.st.lock().unwrap();
            g.closed = true;
            g.backlog.drain(..).collect()
        };
        if sched::try_with(|_| ()).is_some() {
            crate::slog!("listener closed ({} connections left unaccepted in the backlog)", dropped.len());
        }
        drop(dropped);
    }
}
