//! A turnstile inside SQLite: `sqlite3_step` is wrapped at link time (`-Wl,--wrap=sqlite3_step`,
//! set for this workspace only), so that every *statement* sqlx's worker threads are about to
//! execute first waits for the simulator's permission. The simulator grants one statement at a
//! time, chosen by the choice tape among the statements waiting when the system is quiescent,
//! which makes statement-level interleavings of concurrent store operations both explorable and
//! exactly replayable although sqlx's workers are real OS threads. Nothing in sqlx, SQLite or the
//! repository is modified.
use std::ffi::{CStr, c_char, c_int, c_void};
use std::sync::atomic::{AtomicBool, AtomicU64, Ordering};
use std::sync::{Condvar, Mutex};

unsafe extern "C" {
    fn __real_sqlite3_step(stmt: *mut c_void) -> c_int;
    fn sqlite3_stmt_busy(stmt: *mut c_void) -> c_int;
    fn sqlite3_expanded_sql(stmt: *mut c_void) -> *mut c_char;
    fn sqlite3_free(p: *mut c_void);
    fn sqlite3_db_handle(stmt: *mut c_void) -> *mut c_void;
    fn sqlite3_get_autocommit(db: *mut c_void) -> c_int;
    fn __real_sqlite3_reset(stmt: *mut c_void) -> c_int;
    fn __real_sqlite3_finalize(stmt: *mut c_void) -> c_int;
    fn __real_sqlite3_unlock_notify(db: *mut c_void, cb: Option<unsafe extern "C" fn(*mut *mut c_void, c_int)>, arg: *mut c_void) -> c_int;
    fn __real_sqlite3_extended_errcode(db: *mut c_void) -> c_int;
}

// ---------------------------------------------------------------------------------------------
// fault: a statement fails as if the VFS had reported an error (disk full, I/O error, busy). The
// statement is NOT executed (what a journaled database guarantees for a failed statement); the
// wrapper returns the error code from `sqlite3_step` and answers the connection's next
// `sqlite3_extended_errcode` with the same code (sqlx builds its error from that call).

/// (connection, code) of injected failures whose code has not been fetched yet
static INJECTED: Mutex<Vec<(usize, c_int)>> = Mutex::new(Vec::new());
/// injected statement failures / of which inside an explicit transaction (reach probes)
pub static FAILED: AtomicU64 = AtomicU64::new(0);
pub static FAILED_IN_TX: AtomicU64 = AtomicU64::new(0);
/// pass-through mode (turnstile disabled): the statement that brings this countdown to zero fails
/// with `PASS_CODE`; negative = off
static PASS_COUNTDOWN: std::sync::atomic::AtomicI64 = std::sync::atomic::AtomicI64::new(-1);
static PASS_CODE: std::sync::atomic::AtomicI32 = std::sync::atomic::AtomicI32::new(10);

pub const FAULT_CODES: [c_int; 3] = [13 /* SQLITE_FULL */, 10 /* SQLITE_IOERR */, 5 /* SQLITE_BUSY */];

/// Pass-through mode: fail the (k+1)-th statement from now on that is not transaction control.
pub fn fail_after(k: Option<u32>, code: c_int) {
    PASS_CODE.store(code, Ordering::SeqCst);
    PASS_COUNTDOWN.store(k.map(|k| k as i64).unwrap_or(-1), Ordering::SeqCst);
    if k.is_none() {
        INJECTED.lock().unwrap().clear();
    }
}

/// Transaction control and pragmas are never failed: a failed COMMIT leaves sqlx's own
/// transaction-depth bookkeeping, not the store, in charge of what happens next.
pub fn can_fail(sql: &str) -> bool {
    let head: String = sql.trim_start().chars().take(9).collect::<String>().to_ascii_uppercase();
    !(head.starts_with("BEGIN") || head.starts_with("COMMIT") || head.starts_with("ROLLBACK") || head.starts_with("SAVEPOINT") || head.starts_with("RELEASE") || head.starts_with("PRAGMA") || head.starts_with("END"))
}

fn inject(stmt: *mut c_void, code: c_int) -> c_int {
    let db = unsafe { sqlite3_db_handle(stmt) };
    FAILED.fetch_add(1, Ordering::Relaxed);
    if unsafe { sqlite3_get_autocommit(db) } == 0 {
        FAILED_IN_TX.fetch_add(1, Ordering::Relaxed);
    }
    let mut g = INJECTED.lock().unwrap();
    g.retain(|(d, _)| *d != db as usize);
    g.push((db as usize, code));
    code
}

#[unsafe(no_mangle)]
pub unsafe extern "C" fn __wrap_sqlite3_extended_errcode(db: *mut c_void) -> c_int {
    {
        let mut g = INJECTED.lock().unwrap();
        if let Some(i) = g.iter().position(|(d, _)| *d == db as usize) {
            return g.swap_remove(i).1;
        }
    }
    unsafe { __real_sqlite3_extended_errcode(db) }
}

fn expanded(stmt: *mut c_void) -> String {
    unsafe {
        let p = sqlite3_expanded_sql(stmt);
        if p.is_null() {
            String::from("?")
        } else {
            let s = CStr::from_ptr(p).to_string_lossy().to_string();
            sqlite3_free(p as *mut c_void);
            s
        }
    }
}

/// SQLITE_LOCKED | (1 << 8)
const SQLITE_LOCKED_SHAREDCACHE: c_int = 6 | (1 << 8);
const SQLITE_ROW: c_int = 100;

/// A granted multi-step statement is over: the simulator may look again.
fn conclude(stmt: usize) {
    let mut g = STATE.lock().unwrap();
    if let Some(i) = g.open.iter().position(|s| *s == stmt) {
        g.open.swap_remove(i);
        g.running = g.running.saturating_sub(1);
        g.finished += 1;
        drop(g);
        CV.notify_all();
    }
}

static ENABLED: AtomicBool = AtomicBool::new(false);
/// statements that went through the gate (reach probe)
pub static GATED: AtomicU64 = AtomicU64::new(0);

struct Waiter {
    ticket: u64,
    sql: String,
    granted: bool,
    /// Some(code): when granted, the statement fails with this code instead of executing
    fail: Option<c_int>,
    db: usize,
}

#[derive(Default)]
struct State {
    next_ticket: u64,
    waiting: Vec<Waiter>,
    /// number of granted statements whose first step has not returned yet
    running: u64,
    finished: u64,
    /// statements that found a table locked by another connection's open transaction and are
    /// asleep until SQLite's unlock notification (they will come back to the turnstile)
    lock_waiting: u64,
    /// … that have been notified and are on their way back to the turnstile
    in_transit: u64,
    /// statements whose step has just answered "table locked" and that have not registered for the
    /// unlock notification yet (still moving)
    pre_lock: u64,
    /// every connection seen at the turnstile since the gate was enabled
    dbs: Vec<usize>,
    /// connections whose current statement is asleep on a lock
    lock_waiting_dbs: Vec<usize>,
    /// granted statements whose first step returned a row: they conclude (and release their read
    /// lock) when a later step says DONE or when sqlx resets them, which the worker thread does on
    /// its own; the simulator waits for that before looking at the system again
    open: Vec<usize>,
}

static STATE: Mutex<State> = Mutex::new(State { next_ticket: 0, waiting: Vec::new(), running: 0, finished: 0, lock_waiting: 0, in_transit: 0, pre_lock: 0, dbs: Vec::new(), lock_waiting_dbs: Vec::new(), open: Vec::new() });

thread_local! {
    /// this worker thread was notified of an unlock and has not reached the turnstile again yet
    static IN_TRANSIT: std::cell::Cell<bool> = const { std::cell::Cell::new(false) };
}
static CV: Condvar = Condvar::new();
static TRACE: Mutex<Vec<String>> = Mutex::new(Vec::new());

fn tr(msg: String) {
    if std::env::var_os("VERIF_GATE_TRACE").is_some() {
        let mut t = TRACE.lock().unwrap();
        if t.len() > 400 {
            t.remove(0);
        }
        t.push(format!("{:?} {msg}", std::thread::current().id()));
    }
}

pub fn enable(on: bool) {
    let mut g = STATE.lock().unwrap();
    g.waiting.clear();
    g.running = 0;
    g.finished = 0;
    g.lock_waiting = 0;
    g.in_transit = 0;
    g.pre_lock = 0;
    g.dbs.clear();
    g.lock_waiting_dbs.clear();
    g.open.clear();
    NOTIFIED_THREADS.lock().unwrap().clear();
    ENABLED.store(on, Ordering::SeqCst);
    drop(g);
    CV.notify_all();
}

/// What the simulator looks at before every decision.
pub struct Snapshot {
    /// statements parked at the turnstile (expanded SQL, sorted)
    pub parked: Vec<String>,
    /// statements executing, or notified of an unlock and on their way back to the turnstile
    pub moving: u64,
    /// statements asleep on a lock held by another connection's open transaction
    pub lock_waiting: u64,
    /// connections with an open transaction and nothing parked or asleep on them: whoever opened
    /// the transaction is between two statements, or a ROLLBACK issued by a dropped transaction is
    /// on its way — either way the system is not quiescent yet
    pub orphan_transactions: u64,
}

/// Internal counters, for harness diagnostics only.
pub fn debug_state() -> String {
    let g = STATE.lock().unwrap();
    let dbs: Vec<String> = g.dbs.iter().map(|d| format!("{:x}:autocommit={}", d, unsafe { sqlite3_get_autocommit(*d as *mut c_void) })).collect();
    let trace = TRACE.lock().unwrap().join("\n  ");
    format!("TRACE:\n  {trace}\nwaiting={:?} running={} finished={} lock_waiting={} in_transit={} pre_lock={} open={:?} lock_waiting_dbs={:x?} dbs={:?} notified={}", g.waiting.iter().map(|w| (w.sql.chars().take(30).collect::<String>(), w.granted, w.db)).collect::<Vec<_>>(), g.running, g.finished, g.lock_waiting, g.in_transit, g.pre_lock, g.open, g.lock_waiting_dbs, dbs, NOTIFIED_THREADS.lock().unwrap().len())
}

pub fn snapshot() -> Snapshot {
    let g = STATE.lock().unwrap();
    let mut v: Vec<String> = g.waiting.iter().filter(|w| !w.granted).map(|w| w.sql.clone()).collect();
    v.sort();
    let mut orphans = 0;
    for db in &g.dbs {
        let open = unsafe { sqlite3_get_autocommit(*db as *mut c_void) } == 0;
        if open && !g.waiting.iter().any(|w| w.db == *db) && !g.lock_waiting_dbs.contains(db) {
            orphans += 1;
        }
    }
    Snapshot { parked: v, moving: g.running + g.in_transit + g.pre_lock, lock_waiting: g.lock_waiting, orphan_transactions: orphans }
}

/// Let the waiting statement with this expanded SQL proceed; returns once its step has returned.
pub fn grant_and_wait(sql: &str) {
    grant_and_wait_with(sql, None)
}

/// As `grant_and_wait`; with `Some(code)` the statement fails with that code instead of executing.
pub fn grant_and_wait_with(sql: &str, fail: Option<c_int>) {
    tr(format!("grant {} fail={fail:?}", sql.chars().take(24).collect::<String>()));
    let mut g = STATE.lock().unwrap();
    let before = g.finished;
    if let Some(w) = g.waiting.iter_mut().find(|w| !w.granted && w.sql == sql) {
        w.granted = true;
        w.fail = fail;
        g.running += 1;
    } else {
        return;
    }
    CV.notify_all();
    while g.finished == before {
        g = CV.wait(g).unwrap();
    }
}

#[unsafe(no_mangle)]
pub unsafe extern "C" fn __wrap_sqlite3_step(stmt: *mut c_void) -> c_int {
    // only the FIRST step of a statement execution is a scheduling point: the remaining steps of
    // a multi-row read proceed freely (they cannot change the database)
    let first = unsafe { sqlite3_stmt_busy(stmt) } == 0;
    if first {
        // a new statement on this connection: an injected code nobody fetched is forgotten
        let db = unsafe { sqlite3_db_handle(stmt) } as usize;
        INJECTED.lock().unwrap().retain(|(d, _)| *d != db);
    }
    if !ENABLED.load(Ordering::SeqCst) {
        if first && PASS_COUNTDOWN.load(Ordering::SeqCst) >= 0 && can_fail(&expanded(stmt)) {
            if PASS_COUNTDOWN.fetch_sub(1, Ordering::SeqCst) == 0 {
                return inject(stmt, PASS_CODE.load(Ordering::SeqCst));
            }
        }
        return unsafe { __real_sqlite3_step(stmt) };
    }
    if !first {
        let r = unsafe { __real_sqlite3_step(stmt) };
        tr(format!("non-first step r={r}"));
        if r != SQLITE_ROW {
            conclude(stmt as usize);
        }
        return r;
    }
    let sql = expanded(stmt);
    let ticket = {
        let mut g = STATE.lock().unwrap();
        if take_transit_flag() {
            g.in_transit = g.in_transit.saturating_sub(1);
        }
        g.next_ticket += 1;
        let t = g.next_ticket;
        let db = unsafe { sqlite3_db_handle(stmt) } as usize;
        if !g.dbs.contains(&db) {
            g.dbs.push(db);
        }
        g.lock_waiting_dbs.retain(|d| *d != db);
        g.waiting.push(Waiter { ticket: t, sql, granted: false, fail: None, db });
        t
    };
    CV.notify_all();
    let mut fail: Option<c_int> = None;
    {
        let mut g = STATE.lock().unwrap();
        loop {
            if !ENABLED.load(Ordering::SeqCst) {
                break;
            }
            if let Some(w) = g.waiting.iter().find(|w| w.ticket == ticket && w.granted) {
                fail = w.fail;
                break;
            }
            g = CV.wait(g).unwrap();
        }
    }
    GATED.fetch_add(1, Ordering::Relaxed);
    tr(format!("step begin ticket={ticket}"));
    let r = match fail {
        Some(code) => inject(stmt, code),
        None => unsafe { __real_sqlite3_step(stmt) },
    };
    tr(format!("step end ticket={ticket} r={r}"));
    {
        let mut g = STATE.lock().unwrap();
        let mut was_granted = false;
        if let Some(i) = g.waiting.iter().position(|w| w.ticket == ticket) {
            let w = g.waiting.remove(i);
            was_granted = w.granted;
        }
        if r == SQLITE_ROW && was_granted {
            // more steps (or a reset) will follow without the simulator's involvement
            g.open.push(stmt as usize);
        } else {
            if was_granted {
                g.running = g.running.saturating_sub(1);
            }
            if r == SQLITE_LOCKED_SHAREDCACHE {
                // the caller (sqlx) will now sleep on sqlite3_unlock_notify and retry afterwards
                g.pre_lock += 1;
            }
            g.finished += 1;
        }
    }
    CV.notify_all();
    r
}

// ---------------------------------------------------------------------------------------------
// unlock notifications: a statement that found a table locked sleeps until the locking
// transaction ends; SQLite tells it through a callback, invoked synchronously inside the step of
// the statement that ends the transaction. The wrapper substitutes its own callback so that the
// bookkeeping ("asleep on a lock" → "on its way back to the turnstile") changes at exactly that
// moment, i.e. before the simulator looks at the system again.

struct Orig {
    cb: unsafe extern "C" fn(*mut *mut c_void, c_int),
    arg: *mut c_void,
    thread: std::thread::ThreadId,
}

thread_local! {
    static NOTIFIED_FOR: std::cell::Cell<bool> = const { std::cell::Cell::new(false) };
}

static NOTIFIED_THREADS: Mutex<Vec<std::thread::ThreadId>> = Mutex::new(Vec::new());

unsafe extern "C" fn on_unlock(args: *mut *mut c_void, n: c_int) {
    tr(format!("on_unlock n={n}"));
    for i in 0..n as isize {
        let p = unsafe { *args.offset(i) } as *mut Orig;
        if p.is_null() {
            continue;
        }
        let o = unsafe { Box::from_raw(p) };
        {
            let mut g = STATE.lock().unwrap();
            g.lock_waiting = g.lock_waiting.saturating_sub(1);
            g.in_transit += 1;
        }
        NOTIFIED_THREADS.lock().unwrap().push(o.thread);
        let mut a = o.arg;
        unsafe { (o.cb)(&mut a as *mut *mut c_void, 1) };
    }
    CV.notify_all();
}

#[unsafe(no_mangle)]
pub unsafe extern "C" fn __wrap_sqlite3_unlock_notify(db: *mut c_void, cb: Option<unsafe extern "C" fn(*mut *mut c_void, c_int)>, arg: *mut c_void) -> c_int {
    if !ENABLED.load(Ordering::SeqCst) {
        return unsafe { __real_sqlite3_unlock_notify(db, cb, arg) };
    }
    let Some(cb) = cb else {
        return unsafe { __real_sqlite3_unlock_notify(db, None, arg) };
    };
    {
        // from "just got LOCKED" to "asleep until notified" — before the real call, because the
        // notification may be delivered synchronously from within it
        let mut g = STATE.lock().unwrap();
        g.pre_lock = g.pre_lock.saturating_sub(1);
        g.lock_waiting += 1;
        g.lock_waiting_dbs.push(db as usize);
    }
    let boxed = Box::into_raw(Box::new(Orig { cb, arg, thread: std::thread::current().id() }));
    tr(format!("unlock_notify register db={:x}", db as usize));
    let r = unsafe { __real_sqlite3_unlock_notify(db, Some(on_unlock), boxed as *mut c_void) };
    tr(format!("unlock_notify registered r={r}"));
    if r != 0 {
        // not registered (e.g. SQLITE_LOCKED: deadlock detected): nothing will call us back
        unsafe { drop(Box::from_raw(boxed)) };
        let mut g = STATE.lock().unwrap();
        g.lock_waiting = g.lock_waiting.saturating_sub(1);
    }
    r
}

/// Called at the turnstile: was this thread woken by an unlock notification since it last parked?
fn take_transit_flag() -> bool {
    let me = std::thread::current().id();
    let mut v = NOTIFIED_THREADS.lock().unwrap();
    if let Some(i) = v.iter().position(|t| *t == me) {
        v.swap_remove(i);
        true
    } else {
        false
    }
}

#[unsafe(no_mangle)]
pub unsafe extern "C" fn __wrap_sqlite3_reset(stmt: *mut c_void) -> c_int {
    let r = unsafe { __real_sqlite3_reset(stmt) };
    if ENABLED.load(Ordering::SeqCst) {
        conclude(stmt as usize);
    }
    r
}

#[unsafe(no_mangle)]
pub unsafe extern "C" fn __wrap_sqlite3_finalize(stmt: *mut c_void) -> c_int {
    let r = unsafe { __real_sqlite3_finalize(stmt) };
    if ENABLED.load(Ordering::SeqCst) {
        conclude(stmt as usize);
    }
    r
}
