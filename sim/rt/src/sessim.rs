//! C11 — session state carries over from one request to the next, exactly.
//! C12 — session cookies are never emitted unprotected and never leak the id.
//!
//! System: a client with a cookie jar issuing a sequence of requests against the REAL
//! `extract_request_cookies` / `inject_response_cookies`, biscotti `Processor`,
//! `IncomingSession::extract`, `Session` (every public operation), `finalize_session` and a REAL
//! `InMemorySessionStore`, wrapped by a thin `FaultyStore` (forwards, fails the k-th call, or
//! stalls forever = the request is dropped un-finalised). Wall clock and entropy are the
//! simulator's (libc seams): the clock advances between requests by seeded steps (also backwards)
//! and ticks on every read.
//!
//! Oracle: a reference model written from the documentation of `Session`, `SessionStateConfig`
//! and the store trait (NOT from `sync()`): durable map id → (key/values, deadline interval),
//! cookie jar, per-request volatile view. Where the documentation leaves a bit unspecified
//! (existence of an *empty* record, whether a TTL was extended, the outcome near a deadline,
//! what a failed request had already synced) the model is three-valued and adopts what it
//! observes; everything else is checked operation by operation.
use std::borrow::Cow;
use std::collections::{BTreeMap, BTreeSet, HashMap};
use std::future::Future;
use std::num::NonZeroUsize;
use std::sync::{Arc, Mutex};
use std::task::{Context, Poll};
use std::time::Duration;

use pavex::Response;
use pavex::cookie::{Processor, ProcessorConfig, RequestCookies, ResponseCookies, SameSite};
use pavex::request::RequestHead;
use pavex_session::config::{MissingServerState, ServerStateCreation, SessionCookieKind, TtlExtensionThreshold, TtlExtensionTrigger};
use pavex_session::store::errors::*;
use pavex_session::store::{SessionRecord, SessionRecordRef, SessionStorageBackend};
use pavex_session::{IncomingSession, Session, SessionConfig, SessionId, SessionStore, finalize_session};
use pavex_session_memory_store::InMemorySessionStore;
use serde::{Deserialize, Serialize};
use serde_json::Value;
use simcore::{EventLog, Rng, RunOut, Sim, Tape, Tier, Violation, driver::SimMeta};

use crate::seams;

pub struct SesSim;

#[derive(Serialize, Deserialize, Clone, Debug, PartialEq)]
pub enum Op {
    SGet(u8),
    SInsert(u8),
    SRemove(u8),
    SClear,
    SIsEmpty,
    ForceLoad,
    CGet(u8),
    CInsert(u8),
    CRemove(u8),
    CClear,
    CIsEmpty,
    Delete,
    CycleId,
    Invalidate,
    Sync,
    /// read every key on both sides
    Observe,
    /// format!("{session:?}") must not contain any id the session has held
    DebugFmt,
    /// the handler takes this long (wall clock moves in the middle of the request)
    Wait(u32),
    /// several read operations in flight AT ONCE on the one `&Session` (what `tokio::join!` of two
    /// reads, or two request-scoped components awaited concurrently, does): the store answers each
    /// `load` after a seeded number of polls, the tape `order` decides which pending read is polled
    /// next, the wall clock moves by `step_ms` between polls (so two loads of one request can
    /// straddle a deadline and get different answers), and — fault arm only — one load may come
    /// back with a stale "no such record"
    Join(JoinOp),
}

#[derive(Serialize, Deserialize, Clone, Debug, PartialEq)]
pub enum JRead {
    SGet(u8),
    IsEmpty,
    ForceLoad,
}

#[derive(Serialize, Deserialize, Clone, Debug, PartialEq)]
pub struct JoinOp {
    pub reads: Vec<JRead>,
    /// polls the j-th `load` call of the join waits for before it reaches the backend
    pub delays: Vec<u8>,
    /// which pending read is polled next (index modulo the number of pending reads)
    pub order: Vec<u8>,
    /// clock step after each poll, milliseconds (cyclic)
    pub step_ms: Vec<u32>,
    /// fault: the j-th `load` call answers `None` whatever the backend holds (a lagging replica)
    pub stale_none: Option<u8>,
}

#[derive(Serialize, Deserialize, Clone, Debug, PartialEq)]
pub enum Present {
    Latest,
    /// the k-th most recent *older* cookie of the jar (replay of a stale cookie)
    Older(u8),
    None,
    Garbage,
    /// a well-formed session cookie that this server never issued: the plain JSON payload with a
    /// made-up id (and, `true`, a client-side value), as any client can write it. A processor that
    /// signs or encrypts the session cookie throws it away; one that does not hands it to the
    /// session machinery as a returning session
    Forged(bool),
}

#[derive(Serialize, Deserialize, Clone, Debug, PartialEq)]
pub enum StoreFault {
    /// the n-th backend call of this request fails with `Other`
    Error(u8),
    /// the n-th backend call of this request never returns: the request future is dropped there
    Crash(u8),
    /// SQLite backend: the n-th SQL statement of this request (transaction control excluded) fails
    /// inside SQLite with FAULT_CODES[c] (disk full / I/O error / busy) — the store's own error
    /// path produces the `Other` error. On the memory backend: same as `Error(n)`.
    Sql(u8, u8),
}

#[derive(Serialize, Deserialize, Clone, Debug, PartialEq)]
pub struct Req {
    /// clock step before the request, milliseconds (negative = the wall clock jumps backwards)
    pub advance_ms: i64,
    pub present: Present,
    pub ops: Vec<Op>,
    pub fault: Option<StoreFault>,
    /// the handler "panics" after its operations: the session is dropped without finalisation
    pub abandon: bool,
    /// other cookies the client sends along with the session cookie: 0 none; 1 a valid cookie on the
    /// same `Cookie` line, before the session cookie; 2 a valid cookie on a header line of its own,
    /// before the session cookie's line; 3 an UNPARSABLE cookie (no value) on a line of its own before
    /// it; 4 the same after it; 5 `=orphan` on a line of its own before it; 6 an unparsable cookie on the SAME
    /// line, before the session cookie
    #[serde(default)]
    pub other_cookies: u8,
}

#[derive(Serialize, Deserialize, Clone, Debug, PartialEq)]
pub enum Crypto {
    None,
    Sign,
    Encrypt,
}

#[derive(Serialize, Deserialize, Clone, Debug, PartialEq)]
pub struct Cfg {
    pub never_skip: bool,
    pub reject_missing: bool,
    pub extend_on_loads: bool,
    /// None | Some(ratio in thousandths)
    pub threshold_milli: Option<u32>,
    pub ttl_ms: u64,
    pub cookie_name: String,
    pub domain: Option<String>,
    pub path: Option<String>,
    pub secure: bool,
    pub http_only: bool,
    /// 0 none, 1 strict, 2 lax, 3 none-value
    pub same_site: u8,
    pub persistent: bool,
    pub crypto: Crypto,
    /// the crypto rule names the session cookie (otherwise it names another cookie)
    pub rule_names_session_cookie: bool,
    pub with_fallback_key: bool,
    pub percent_encode: bool,
    /// clock tick per read, nanoseconds
    pub tick_ns: i64,
    /// Some(mask): the cookie section of the configuration is built by DESERIALISING a document
    /// from which the fields whose bit is set are missing (bit 0 name, 1 domain, 2 path, 3 secure,
    /// 4 http_only, 5 same_site, 6 kind); the fields above then already hold the documented defaults
    #[serde(default)]
    pub cookie_serde_omit: Option<u8>,
    /// the server-side records live in the bundled SQLite store (`sqlite::memory:`, one pooled
    /// connection, real sqlx worker thread) instead of the in-memory store
    #[serde(default)]
    pub sqlite: bool,
}

#[derive(Serialize, Deserialize, Clone, Debug, PartialEq)]
pub struct Script {
    pub arm: String,
    pub cfg: Cfg,
    pub reqs: Vec<Req>,
    /// from this request on the cookie processor is reconfigured (a deployment): new primary
    /// algorithm and key, the previous algorithm and key kept as a fallback for incoming cookies
    #[serde(default)]
    pub crypto_switch: Option<(usize, Crypto)>,
    /// from this request on the application runs with other cookie attributes (secure, http_only,
    /// same_site code, persistent): the configuration that has been in use is CLONED and the clone is
    /// changed in place, as a hot reload of the configuration would do
    #[serde(default)]
    pub cookie_switch: Option<(usize, bool, bool, u8, bool)>,
    /// the run is an OVERLAP scenario instead of a sequence: two requests presenting the same cookie
    /// are in flight at once (a browser that fires parallel requests), interleaved at store calls
    #[serde(default)]
    pub overlap: Option<Overlap>,
    /// the run is a MAX-AGE scenario: the configured TTL is one of the extreme values a `Duration` can
    /// hold (index into `EXTREME_TTLS`), the cookie is persistent, a returning client's request leaves
    /// the server state alone: `Max-Age` must be the configured TTL, clamped to what it can express
    #[serde(default)]
    pub extreme_ttl: Option<u8>,
}

const EXTREME_TTLS: [Duration; 6] = [
    Duration::from_secs(60 * 60 * 24 * 365 * 1000),
    Duration::from_secs(i64::MAX as u64),
    Duration::from_secs(i64::MAX as u64 + 1),
    Duration::from_secs(u64::MAX),
    Duration::MAX,
    Duration::from_millis(90_500),
];

/// Two requests of one session in flight at once. `a` and `b` are their operations (a reduced
/// alphabet: SGet, SInsert, SRemove, ForceLoad, CInsert, Delete, CycleId, Invalidate, Sync); every
/// call into the store is a scheduling point and `order` says which request moves next (bit i of
/// the byte sequence: 0 = A, 1 = B; when the chosen one has finished the other one moves).
#[derive(Serialize, Deserialize, Clone, Debug, PartialEq)]
pub struct Overlap {
    pub a: Vec<Op>,
    pub b: Vec<Op>,
    pub order: Vec<u8>,
}

const SKEYS: [&str; 3] = ["a", "b", "c"];
const CKEYS: [&str; 2] = ["x", "y"];

// ---------------------------------------------------------------------------------------------
// faulty store

#[derive(Debug, Default)]
struct FaultPlan {
    calls_in_request: u32,
    fail_at: Option<u32>,
    crash_at: Option<u32>,
    fired_error: bool,
    fired_crash: bool,
    fired_stale: bool,
    /// an explicit `sync()` is being executed / the injected error hit a call made by it
    in_sync: bool,
    error_in_sync: bool,
    log: Vec<String>,
    /// Some while a `Join` is being executed
    join: Option<JoinPlan>,
}

#[derive(Debug, Default)]
struct JoinPlan {
    delays: Vec<u8>,
    stale_none: Option<u8>,
    next_call: u32,
    /// one entry per `load` call that came back, in completion order
    answers: Vec<LoadAnswer>,
}

#[derive(Debug, Clone)]
struct LoadAnswer {
    call: u32,
    /// clock right before / right after the backend was asked
    t_lo: i64,
    t_hi: i64,
    stale: bool,
    /// Ok(Some(state)) / Ok(None) / Err
    got: Result<Option<Map>, ()>,
}

/// Pending once, then ready: one scheduling point.
struct YieldOnce(bool);
impl Future for YieldOnce {
    type Output = ();
    fn poll(mut self: std::pin::Pin<&mut Self>, cx: &mut Context<'_>) -> Poll<()> {
        if self.0 {
            Poll::Ready(())
        } else {
            self.0 = true;
            cx.waker().wake_by_ref();
            Poll::Pending
        }
    }
}

/// The real backend under the fault-injecting wrapper.
#[derive(Debug, Clone)]
enum Inner {
    Mem(InMemorySessionStore),
    Sql(Arc<pavex_session_sqlx::SqliteSessionStore>),
}

macro_rules! inner_call {
    ($self:expr, $m:ident ( $($a:expr),* )) => {
        match $self {
            Inner::Mem(s) => s.$m($($a),*).await,
            Inner::Sql(s) => s.$m($($a),*).await,
        }
    };
}

impl Inner {
    async fn create(&self, id: &SessionId, record: SessionRecordRef<'_>) -> Result<(), CreateError> {
        inner_call!(self, create(id, record))
    }
    async fn update(&self, id: &SessionId, record: SessionRecordRef<'_>) -> Result<(), UpdateError> {
        inner_call!(self, update(id, record))
    }
    async fn update_ttl(&self, id: &SessionId, ttl: Duration) -> Result<(), UpdateTtlError> {
        inner_call!(self, update_ttl(id, ttl))
    }
    async fn load(&self, id: &SessionId) -> Result<Option<SessionRecord>, LoadError> {
        inner_call!(self, load(id))
    }
    async fn delete(&self, id: &SessionId) -> Result<(), DeleteError> {
        inner_call!(self, delete(id))
    }
    async fn change_id(&self, old: &SessionId, new: &SessionId) -> Result<(), ChangeIdError> {
        inner_call!(self, change_id(old, new))
    }
    async fn delete_expired(&self, b: Option<NonZeroUsize>) -> Result<usize, DeleteExpiredError> {
        inner_call!(self, delete_expired(b))
    }
}

#[derive(Debug, Clone)]
struct FaultyStore {
    inner: Inner,
    plan: Arc<Mutex<FaultPlan>>,
    /// signalled when a call is stalled for good (the driver of the SQLite arm awaits it)
    stalled: Arc<tokio::sync::Notify>,
}

impl FaultyStore {
    async fn stall<T>(&self) -> T {
        self.stalled.notify_one();
        std::future::pending().await
    }
}

enum Gate {
    Go,
    Fail,
    Crash,
}

impl FaultyStore {
    fn gate(&self, what: &str) -> Gate {
        let mut p = self.plan.lock().unwrap();
        p.calls_in_request += 1;
        let n = p.calls_in_request;
        p.log.push(what.to_string());
        if p.fail_at == Some(n) {
            p.fired_error = true;
            p.error_in_sync = p.in_sync;
            return Gate::Fail;
        }
        if p.crash_at == Some(n) {
            p.fired_crash = true;
            return Gate::Crash;
        }
        Gate::Go
    }
}

fn injected() -> anyhow::Error {
    anyhow::anyhow!("injected store failure")
}

#[async_trait::async_trait]
impl SessionStorageBackend for FaultyStore {
    async fn create(&self, id: &SessionId, record: SessionRecordRef<'_>) -> Result<(), CreateError> {
        match self.gate("create") {
            Gate::Go => self.inner.create(id, record).await,
            Gate::Fail => Err(CreateError::Other(injected())),
            Gate::Crash => self.stall().await,
        }
    }
    async fn update(&self, id: &SessionId, record: SessionRecordRef<'_>) -> Result<(), UpdateError> {
        match self.gate("update") {
            Gate::Go => self.inner.update(id, record).await,
            Gate::Fail => Err(UpdateError::Other(injected())),
            Gate::Crash => self.stall().await,
        }
    }
    async fn update_ttl(&self, id: &SessionId, ttl: Duration) -> Result<(), UpdateTtlError> {
        match self.gate("update_ttl") {
            Gate::Go => self.inner.update_ttl(id, ttl).await,
            Gate::Fail => Err(UpdateTtlError::Other(injected())),
            Gate::Crash => self.stall().await,
        }
    }
    async fn load(&self, id: &SessionId) -> Result<Option<SessionRecord>, LoadError> {
        // inside a `Join`: this call reaches the backend after its scripted number of polls
        let joined: Option<(u32, u8, bool)> = {
            let mut p = self.plan.lock().unwrap();
            p.join.as_mut().map(|j| {
                let call = j.next_call;
                j.next_call += 1;
                (call, j.delays.get(call as usize).copied().unwrap_or(0), j.stale_none == Some(call as u8))
            })
        };
        if let Some((_, delay, _)) = joined {
            for _ in 0..delay {
                YieldOnce(false).await;
            }
        }
        let t_lo = seams::clock_ns();
        let r = match self.gate("load") {
            Gate::Go => match joined {
                Some((_, _, true)) => {
                    self.plan.lock().unwrap().fired_stale = true;
                    Ok(None)
                }
                _ => self.inner.load(id).await,
            },
            Gate::Fail => Err(LoadError::Other(injected())),
            Gate::Crash => self.stall().await,
        };
        if let Some((call, _, stale)) = joined {
            let t_hi = seams::clock_ns();
            let got = match &r {
                Ok(Some(rec)) => Ok(Some(to_map(&rec.state))),
                Ok(None) => Ok(None),
                Err(_) => Err(()),
            };
            if let Some(j) = self.plan.lock().unwrap().join.as_mut() {
                j.answers.push(LoadAnswer { call, t_lo, t_hi, stale, got });
            }
        }
        r
    }
    async fn delete(&self, id: &SessionId) -> Result<(), DeleteError> {
        match self.gate("delete") {
            Gate::Go => self.inner.delete(id).await,
            Gate::Fail => Err(DeleteError::Other(injected())),
            Gate::Crash => self.stall().await,
        }
    }
    async fn change_id(&self, old: &SessionId, new: &SessionId) -> Result<(), ChangeIdError> {
        match self.gate("change_id") {
            Gate::Go => self.inner.change_id(old, new).await,
            Gate::Fail => Err(ChangeIdError::Other(injected())),
            Gate::Crash => self.stall().await,
        }
    }
    async fn delete_expired(&self, b: Option<NonZeroUsize>) -> Result<usize, DeleteExpiredError> {
        self.inner.delete_expired(b).await
    }
}

// ---------------------------------------------------------------------------------------------
// model

type Map = BTreeMap<String, Value>;

#[derive(Clone, Copy, Debug, PartialEq, Eq)]
enum Tri {
    Yes,
    No,
    Maybe,
}

/// A record physically present in the store (re-read after every request, see `resync`).
#[derive(Clone, Debug)]
struct Rec {
    map: Map,
    /// exact deadline, ns
    deadline: i64,
}

#[derive(Clone, Debug)]
struct JarEntry {
    header: String,
    id: String,
    client: Map,
}

#[derive(Clone, Debug, PartialEq)]
enum Srv {
    NotLoaded,
    Loaded { exists: Tri, map: Map, changed: bool },
    Deleted,
    /// near a deadline or after an unexplained failure: adopt what is observed
    Unknown,
}

struct Model {
    durable: BTreeMap<String, Rec>,
    jar: Vec<JarEntry>,
    current: Option<usize>,
    /// every value ever written, per key (lineage check in the fault arm)
    written: BTreeMap<String, BTreeSet<String>>,
    all_ids: BTreeSet<String>,
    next_val: u64,
}

struct ReqModel {
    presented: Option<String>,
    renamed: bool,
    inv: bool,
    srv: Srv,
    cli: Map,
    cli_touched: bool,
    ids_held: Vec<String>,
}

fn viol(p: &str, inv: &str, sig: String, detail: String) -> Violation {
    Violation { property: p.into(), invariant: inv.into(), signature: sig, detail }
}

fn block_on<F: Future>(fut: F) -> Option<F::Output> {
    let mut fut = std::pin::pin!(fut);
    let mut cx = Context::from_waker(std::task::Waker::noop());
    // The memory store only awaits an uncontended tokio Mutex: a Pending here means the faulty
    // store has stalled the call for good (simulated crash of the request).
    for _ in 0..4 {
        if let Poll::Ready(v) = fut.as_mut().poll(&mut cx) {
            return Some(v);
        }
    }
    None
}

/// SQLite arm: the store's futures wait for sqlx's worker thread, so they are driven by a real
/// (single-threaded) runtime; a stalled store call is reported through `stalled`.
fn block_on_with<F: Future>(rt: Option<&tokio::runtime::Runtime>, stalled: &tokio::sync::Notify, fut: F) -> Option<F::Output> {
    match rt {
        None => block_on(fut),
        Some(rt) => rt.block_on(async {
            tokio::select! {
                biased;
                v = fut => Some(v),
                _ = stalled.notified() => None,
            }
        }),
    }
}

fn to_map(h: &HashMap<Cow<'static, str>, Value>) -> Map {
    h.iter().map(|(k, v)| (k.to_string(), v.clone())).collect()
}

fn build_config(c: &Cfg) -> SessionConfig {
    let mut cfg = SessionConfig::new();
    cfg.state.ttl = Duration::from_millis(c.ttl_ms);
    cfg.state.extend_ttl = if c.extend_on_loads { TtlExtensionTrigger::OnStateLoadsAndChanges } else { TtlExtensionTrigger::OnStateChanges };
    cfg.state.ttl_extension_threshold = c.threshold_milli.map(|m| TtlExtensionThreshold::new(m as f32 / 1000.0).unwrap());
    cfg.state.server_state_creation = if c.never_skip { ServerStateCreation::NeverSkip } else { ServerStateCreation::SkipIfEmpty };
    cfg.state.missing_server_state = if c.reject_missing { MissingServerState::Reject } else { MissingServerState::Allow };
    cfg.cookie.name = c.cookie_name.clone();
    cfg.cookie.domain = c.domain.clone();
    cfg.cookie.path = c.path.clone();
    cfg.cookie.secure = c.secure;
    cfg.cookie.http_only = c.http_only;
    cfg.cookie.same_site = match c.same_site {
        1 => Some(SameSite::Strict),
        2 => Some(SameSite::Lax),
        3 => Some(SameSite::None),
        _ => None,
    };
    cfg.cookie.kind = if c.persistent { SessionCookieKind::Persistent } else { SessionCookieKind::Session };
    if let Some(mask) = c.cookie_serde_omit {
        // a partially specified configuration document, as an application's config file would be
        let mut doc = serde_json::to_value(&cfg.cookie).expect("cookie config serialises");
        if let Some(obj) = doc.as_object_mut() {
            for (bit, key) in ["name", "domain", "path", "secure", "http_only", "same_site", "kind"].iter().enumerate() {
                if mask & (1 << bit) != 0 {
                    obj.remove(*key);
                }
            }
        }
        cfg.cookie = serde_json::from_value(doc).unwrap_or_else(|e| simcore::driver::harness_error(&format!("cookie config does not deserialise: {e}")));
    }
    cfg
}

fn build_processor(c: &Cfg, crypto: &Crypto, previous: Option<&Crypto>) -> Processor {
    use pavex::cookie::Key;
    use pavex::cookie::config::{CryptoAlgorithm, CryptoRule, FallbackConfig};
    let mut pc = ProcessorConfig::default();
    pc.percent_encode = c.percent_encode;
    let to_alg = |c: &Crypto| match c {
        Crypto::None => None,
        Crypto::Sign => Some(CryptoAlgorithm::Signing),
        Crypto::Encrypt => Some(CryptoAlgorithm::Encryption),
    };
    if let Some(alg) = to_alg(crypto) {
        let name = if c.rule_names_session_cookie { c.cookie_name.clone() } else { format!("{}-other", c.cookie_name) };
        let mut fallbacks = if c.with_fallback_key { vec![FallbackConfig { key: Key::from(vec![9u8; 64]), algorithm: CryptoAlgorithm::Encryption }] } else { vec![] };
        let key = match previous {
            None => Key::from(vec![7u8; 64]),
            Some(prev) => {
                if let Some(palg) = to_alg(prev) {
                    fallbacks.push(FallbackConfig { key: Key::from(vec![7u8; 64]), algorithm: palg });
                }
                Key::from(vec![8u8; 64])
            }
        };
        pc.crypto_rules.push(CryptoRule { cookie_names: vec![name], algorithm: alg, key, fallbacks });
    }
    pc.into()
}

#[derive(Deserialize)]
struct Wire {
    #[serde(rename = "0")]
    id: String,
    #[serde(rename = "1", default)]
    values: BTreeMap<String, Value>,
}

struct SetCookie {
    name: String,
    raw_value: String,
    attrs: Vec<String>,
    removal: bool,
}

fn pct_decode(s: &str) -> String {
    let b = s.as_bytes();
    let mut out = Vec::with_capacity(b.len());
    let mut i = 0;
    while i < b.len() {
        if b[i] == b'%' && i + 2 < b.len() + 0 && i + 2 <= b.len() - 1 + 0 {
            if let Ok(v) = u8::from_str_radix(&s[i + 1..i + 3], 16) {
                out.push(v);
                i += 3;
                continue;
            }
        }
        out.push(b[i]);
        i += 1;
    }
    String::from_utf8_lossy(&out).to_string()
}

fn parse_set_cookie(h: &str) -> SetCookie {
    let mut parts = h.split("; ");
    let nv = parts.next().unwrap_or("");
    let (name, value) = nv.split_once('=').unwrap_or((nv, ""));
    let attrs: Vec<String> = parts.map(|s| s.to_string()).collect();
    let removal = attrs.iter().any(|a| a.starts_with("Expires=Thu, 01 Jan 1970"));
    SetCookie { name: name.to_string(), raw_value: value.to_string(), attrs, removal }
}

struct World<'a> {
    /// the configuration in force (the cookie attributes may change mid-history, see `cookie_switch`)
    cfg: Cfg,
    arm: &'a str,
    config: SessionConfig,
    processor: Processor,
    crypto_now: Crypto,
    switched: bool,
    store: SessionStore,
    peek: Inner,
    rt: Option<tokio::runtime::Runtime>,
    stalled: Arc<tokio::sync::Notify>,
    plan: Arc<Mutex<FaultPlan>>,
    model: Model,
    out: RunOut,
}

impl World<'_> {
    fn now(&self) -> i64 {
        seams::clock_ns()
    }

    /// Read a record straight from the backend, whether stale or not, without side effects on
    /// the simulated clock: the clock is parked in 1970 for the duration of the read so that no
    /// record is stale, and the exact deadline is recovered from the remaining TTL.
    fn peek_phys(&self, id: &str) -> Option<Rec> {
        let Ok(uuid) = serde_json::from_value::<SessionId>(Value::String(id.to_string())) else { return None };
        let now = seams::clock_ns();
        const PARK: i64 = 1_000_000_000;
        seams::set_clock_ns(PARK, 0);
        let r = block_on_with(self.rt.as_ref(), &self.stalled, self.peek.load(&uuid)).and_then(|r| r.ok()).flatten();
        seams::set_clock_ns(now, self.cfg.tick_ns);
        r.map(|r| Rec { map: to_map(&r.state), deadline: PARK + r.ttl.as_nanos() as i64 })
    }

    /// What a `load` at the current instant would return.
    fn peek_live(&self, id: &str) -> Option<Map> {
        let now = seams::clock_ns();
        self.peek_phys(id).filter(|r| r.deadline > now).map(|r| r.map)
    }

    /// Re-read every record the model knows about. The TTL-extension policy, the creation policy
    /// for empty records and whatever a failed request had already written are thereby adopted
    /// from the store instead of being predicted.
    fn resync(&mut self) {
        let ids: Vec<String> = self.model.all_ids.iter().cloned().collect();
        self.model.durable.clear();
        for id in ids {
            if let Some(r) = self.peek_phys(&id) {
                self.model.durable.insert(id, r);
            }
        }
    }

    fn sig_ops(ops: &[Op]) -> String {
        ops.iter()
            .map(|o| match o {
                Op::SGet(_) => "sget",
                Op::SInsert(_) => "sinsert",
                Op::SRemove(_) => "sremove",
                Op::SClear => "sclear",
                Op::SIsEmpty => "sisempty",
                Op::ForceLoad => "forceload",
                Op::CGet(_) => "cget",
                Op::CInsert(_) => "cinsert",
                Op::CRemove(_) => "cremove",
                Op::CClear => "cclear",
                Op::CIsEmpty => "cisempty",
                Op::Delete => "delete",
                Op::CycleId => "cycle",
                Op::Invalidate => "invalidate",
                Op::Sync => "sync",
                Op::Observe => "observe",
                Op::DebugFmt => "debug",
                Op::Wait(_) => "wait",
                Op::Join(_) => "join",
            })
            .collect::<Vec<_>>()
            .join(",")
    }
}

/// Violation signatures name the failing request's operations (after shrinking: the specific
/// pattern that fails) plus the context bits that matter: whether an explicit `sync()` is part
/// of it, which cookie was presented, the missing-state policy.
fn req_shape(cfg: &Cfg, r: &Req) -> String {
    let mut p = String::new();
    match r.present {
        Present::Latest => {}
        Present::Older(_) => p.push_str("older:"),
        Present::None => p.push_str("nocookie:"),
        Present::Garbage => p.push_str("garbage:"),
        Present::Forged(_) => p.push_str("forged:"),
    }
    p.push_str(&World::sig_ops(&r.ops));
    if r.fault.is_some() {
        p.push_str("!fault");
    }
    if r.abandon {
        p.push_str("!abandon");
    }
    format!(
        "req=[{}] explicit_sync={} policy={}{}",
        p,
        r.ops.iter().any(|o| matches!(o, Op::Sync)),
        if cfg.reject_missing { "reject" } else { "allow" },
        if cfg.never_skip { "" } else { "+skip-if-empty" }
    )
}

fn script_shape(s: &Script) -> String {
    s.reqs.iter().map(|r| World::sig_ops(&r.ops)).collect::<Vec<_>>().join(" | ")
}

pub fn execute(script: &Script, _tape: &mut Tape, keep_log: bool) -> RunOut {
    if let Some(ov) = &script.overlap {
        return execute_overlap(script, ov, keep_log);
    }
    if let Some(i) = script.extreme_ttl {
        return execute_extreme_ttl(script, i, keep_log);
    }
    let cfg = &script.cfg;
    seams::set_entropy(Some(0xC11));
    seams::set_clock_ns(seams::EPOCH_S * 1_000_000_000, cfg.tick_ns);
    seams::reset_clock_reads();
    let start_ns = seams::clock_ns();
    let mut rt = None;
    let mut pool = None;
    let inner = if cfg.sqlite {
        let r = tokio::runtime::Builder::new_current_thread().enable_time().rng_seed(tokio::runtime::RngSeed::from_bytes(b"pavex-verif")).build().expect("runtime");
        let (st, p) = r.block_on(async {
            use sqlx::sqlite::SqlitePoolOptions;
            let p = match SqlitePoolOptions::new().max_connections(1).min_connections(0).connect("sqlite::memory:").await {
                Ok(p) => p,
                Err(e) => simcore::driver::harness_error(&format!("sessim: cannot open sqlite::memory: {e}")),
            };
            let st = pavex_session_sqlx::SqliteSessionStore::new(p.clone());
            if let Err(e) = st.migrate().await {
                simcore::driver::harness_error(&format!("sessim: sqlite migration failed: {e}"));
            }
            (st, p)
        });
        rt = Some(r);
        pool = Some(p);
        Inner::Sql(Arc::new(st))
    } else {
        Inner::Mem(InMemorySessionStore::new())
    };
    let plan = Arc::new(Mutex::new(FaultPlan::default()));
    let stalled = Arc::new(tokio::sync::Notify::new());
    let store = SessionStore::new(FaultyStore { inner: inner.clone(), plan: plan.clone(), stalled: stalled.clone() });
    let mut w = World {
        cfg: cfg.clone(),
        arm: &script.arm,
        config: build_config(cfg),
        processor: build_processor(cfg, &cfg.crypto, None),
        crypto_now: cfg.crypto.clone(),
        switched: false,
        store,
        peek: inner,
        rt,
        stalled,
        plan,
        model: Model { durable: BTreeMap::new(), jar: Vec::new(), current: None, written: BTreeMap::new(), all_ids: BTreeSet::new(), next_val: 0 },
        out: RunOut::new(EventLog::new(keep_log)),
    };
    let shape = script_shape(script);
    w.out.log.ev(format_args!("arm={} cfg={}", script.arm, serde_json::to_string(cfg).unwrap_or_default()));
    for (ri, req) in script.reqs.iter().enumerate() {
        seams::advance_clock_ns(req.advance_ms * 1_000_000);
        if req.advance_ms < 0 {
            w.out.count("fault_clock_jump_back", 1);
        }
        if let Some((at, c)) = &script.crypto_switch {
            if *at == ri && !w.switched {
                w.processor = build_processor(cfg, c, Some(&cfg.crypto));
                w.crypto_now = c.clone();
                w.switched = true;
                w.out.count("processor_reconfigured", 1);
            }
        }
        if let Some((at, secure, http_only, same_site, persistent)) = script.cookie_switch {
            if at == ri {
                let mut c2 = w.config.clone();
                c2.cookie.secure = secure;
                c2.cookie.http_only = http_only;
                c2.cookie.same_site = match same_site {
                    1 => Some(SameSite::Strict),
                    2 => Some(SameSite::Lax),
                    3 => Some(SameSite::None),
                    _ => None,
                };
                c2.cookie.kind = if persistent { SessionCookieKind::Persistent } else { SessionCookieKind::Session };
                w.config = c2;
                w.cfg.secure = secure;
                w.cfg.http_only = http_only;
                w.cfg.same_site = same_site;
                w.cfg.persistent = persistent;
                w.out.count("cookie_attributes_reconfigured", 1);
            }
        }
        let rshape = req_shape(cfg, req);
        run_request(&mut w, ri, req, &rshape);
    }
    if cfg.sqlite {
        w.out.count("backend_sqlite", 1);
    }
    let World { out, store, peek, rt, .. } = w;
    drop(store);
    drop(peek);
    if let (Some(rt), Some(pool)) = (rt, pool) {
        rt.block_on(pool.close());
        drop(rt);
    }
    let mut out = out;
    out.sim_ns = (seams::clock_ns() - start_ns).max(0) as u64;
    out.count("clock_reads", seams::clock_reads());
    seams::clear_clock();
    seams::set_entropy(None);
    out.nontrivial = script.reqs.len() >= 2;
    out.log.sched(format_args!("{shape}"));
    out
}

fn run_request(w: &mut World<'_>, ri: usize, req: &Req, shape: &str) {
    // ---- choose the cookie
    let presented: Option<JarEntry> = match &req.present {
        Present::Latest => w.model.current.map(|i| w.model.jar[i].clone()),
        Present::Older(k) => {
            let n = w.model.jar.len();
            let cur = w.model.current.unwrap_or(n);
            let older: Vec<usize> = (0..n).filter(|i| *i != cur).collect();
            if older.is_empty() {
                w.model.current.map(|i| w.model.jar[i].clone())
            } else {
                w.out.count("stale_cookie_replayed", 1);
                Some(w.model.jar[older[older.len() - 1 - (*k as usize % older.len())]].clone())
            }
        }
        Present::None => None,
        Present::Garbage => None,
        Present::Forged(with_value) => {
            let id = format!("00000000-0000-4000-8000-0000000000{:02x}", ri.min(255));
            let mut client = Map::new();
            if *with_value {
                client.insert("x".to_string(), Value::String("forged".into()));
            }
            let json = serde_json::json!({ "0": id, "1": client }).to_string();
            let enc: String = json.bytes().map(|b| if b.is_ascii_alphanumeric() || b"-_.".contains(&b) { (b as char).to_string() } else { format!("%{b:02X}") }).collect();
            w.model.all_ids.insert(id.clone());
            w.model.written.entry("x".into()).or_default().insert(Value::String("forged".into()).to_string());
            w.out.count("forged_cookie_presented", 1);
            Some(JarEntry { header: format!("{}={}", w.cfg.cookie_name, enc), id, client })
        }
    };
    let mut head = RequestHead { method: http::Method::GET, target: "/".parse().unwrap(), version: http::Version::HTTP_11, headers: http::HeaderMap::new() };
    match (&req.present, &presented) {
        (Present::Garbage, _) => {
            w.out.count("garbage_cookie_presented", 1);
            head.headers.insert(http::header::COOKIE, http::HeaderValue::from_str(&format!("{}=Z2FyYmFnZQ%3D%3D.xx", w.cfg.cookie_name)).unwrap());
        }
        (_, Some(e)) => {
            // the client may hold other cookies too (HTTP/2 and some proxies split them over several
            // `Cookie` header lines); a cookie pavex cannot parse on ANOTHER line must not hide the
            // session cookie
            let hv = |s: &str| http::HeaderValue::from_str(s).unwrap();
            match req.other_cookies {
                1 => {
                    head.headers.insert(http::header::COOKIE, hv(&format!("theme=dark; {}", e.header)));
                }
                2 => {
                    head.headers.append(http::header::COOKIE, hv("theme=dark; lang=en"));
                    head.headers.append(http::header::COOKIE, hv(&e.header));
                }
                3 => {
                    head.headers.append(http::header::COOKIE, hv("consent"));
                    head.headers.append(http::header::COOKIE, hv(&e.header));
                }
                4 => {
                    head.headers.append(http::header::COOKIE, hv(&e.header));
                    head.headers.append(http::header::COOKIE, hv("consent"));
                }
                5 => {
                    head.headers.append(http::header::COOKIE, hv("=orphan"));
                    head.headers.append(http::header::COOKIE, hv(&e.header));
                }
                6 => {
                    // an unparsable cookie on the SAME line, before the session cookie
                    head.headers.insert(http::header::COOKIE, hv(&format!("consent; {}", e.header)));
                    w.out.count("unparsable_cookie_on_the_same_header_line", 1);
                }
                _ => {
                    head.headers.insert(http::header::COOKIE, hv(&e.header));
                }
            }
            if req.other_cookies != 0 {
                w.out.count("other_cookies_sent_along", 1);
                if req.other_cookies >= 3 {
                    w.out.count("unparsable_cookie_on_another_header_line", 1);
                }
            }
        }
        _ => {}
    }
    w.out.log.ev(format_args!("req{ri} t={}ns present={:?} id={:?}", w.now(), req.present, presented.as_ref().map(|e| short(&e.id))));
    {
        let mut p = w.plan.lock().unwrap();
        p.calls_in_request = 0;
        p.fail_at = None;
        p.crash_at = None;
        p.fired_error = false;
        p.fired_crash = false;
        p.fired_stale = false;
        p.in_sync = false;
        p.error_in_sync = false;
        p.join = None;
        p.log.clear();
        match req.fault {
            Some(StoreFault::Error(n)) => p.fail_at = Some(n as u32 + 1),
            Some(StoreFault::Crash(n)) => p.crash_at = Some(n as u32 + 1),
            Some(StoreFault::Sql(n, _)) if !w.cfg.sqlite => p.fail_at = Some(n as u32 + 1),
            Some(StoreFault::Sql(..)) => {}
            None => {}
        }
    }
    let sql_failed_before = crate::gate::FAILED.load(std::sync::atomic::Ordering::SeqCst);
    if let (true, Some(StoreFault::Sql(n, c))) = (w.cfg.sqlite, &req.fault) {
        crate::gate::fail_after(Some(*n as u32), crate::gate::FAULT_CODES[*c as usize % crate::gate::FAULT_CODES.len()]);
    }
    let mut rm = ReqModel {
        presented: presented.as_ref().map(|e| e.id.clone()),
        renamed: false,
        inv: false,
        srv: if presented.is_some() { Srv::NotLoaded } else { Srv::Loaded { exists: Tri::No, map: Map::new(), changed: false } },
        cli: presented.as_ref().map(|e| e.client.clone()).unwrap_or_default(),
        cli_touched: false,
        ids_held: presented.iter().map(|e| e.id.clone()).collect(),
    };
    // ---- the request itself: real extraction, real session, real operations
    let cookies: RequestCookies<'_> = match pavex::cookie::extract_request_cookies(&head, &w.processor) {
        Ok(c) => c,
        Err(_) => RequestCookies::new(),
    };
    let incoming = IncomingSession::extract(&cookies, &w.config.cookie);
    if presented.is_some() && incoming.is_none() && (w.switched || matches!(req.present, Present::Forged(_))) {
        if matches!(req.present, Present::Forged(_)) {
            w.out.count("forged_cookie_discarded_by_the_processor", 1);
        }
        // the new processor configuration cannot read the old cookie: a new session starts
        rm.presented = None;
        rm.srv = Srv::Loaded { exists: Tri::No, map: Map::new(), changed: false };
        rm.cli = Map::new();
        rm.ids_held.clear();
    } else if presented.is_some() && incoming.is_none() {
        w.out.violations.push(viol("C11", "cookie-roundtrip", format!("cookie not accepted back{} {shape}", if req.other_cookies == 6 { " (unparsable cookie earlier on the same header line)" } else { "" }), format!("req{ri}: the session cookie emitted earlier was not recognised when presented")));
        // disarm the statement fault armed above: nothing of it may leak into the next run of this process
        crate::gate::fail_after(None, 0);
        return;
    }
    // Move the pieces the async block needs out of `w` by reference.
    let t_req_start = w.now();
    let mut vio: Vec<Violation> = Vec::new();
    let mut log: Vec<String> = Vec::new();
    let mut counters: Vec<&'static str> = Vec::new();
    let mut response_cookies = ResponseCookies::new();
    let mut finalize_result: Option<Result<(), String>> = None;
    let crashed;
    let panicked;
    {
        let store = &w.store;
        // the application's configuration object itself, request after request (never a fresh copy:
        // whatever the session machinery caches in it stays there)
        let config = &w.config;
        let plan = &w.plan;
        let processor = &w.processor;
        let model = &mut w.model;
        let cfgr = &w.cfg;
        let arm = w.arm;
        let fut = async {
            let mut session = Session::new(store, config, incoming);
            for (oi, op) in req.ops.iter().enumerate() {
                apply_op(&mut session, op, &mut rm, model, cfgr, arm, ri, oi, shape, &mut vio, &mut log, &mut counters, plan).await;
            }
            if req.abandon {
                drop(session);
                return;
            }
            // C12: the debug representation never shows an id, also right before finalisation
            check_debug(&session, &rm, ri, shape, &mut vio);
            let must_encrypt_model = !rm.inv && !rm.cli.is_empty();
            let r = finalize_session(Response::ok(), &mut response_cookies, processor, session).await;
            finalize_result = Some(match r {
                Ok(_) => Ok(()),
                Err(e) => Err(format!("{e:?}")),
            });
            let _ = must_encrypt_model;
        };
        crate::quiet_panics();
        let rt = w.rt.as_ref();
        let stalled = &w.stalled;
        match std::panic::catch_unwind(std::panic::AssertUnwindSafe(|| block_on_with(rt, stalled, fut))) {
            Ok(r) => {
                crashed = r.is_none();
                panicked = false;
            }
            Err(_) => {
                crashed = true;
                panicked = true;
            }
        }
    }
    crate::gate::fail_after(None, 0);
    let fired_sql = crate::gate::FAILED.load(std::sync::atomic::Ordering::SeqCst) != sql_failed_before;
    if fired_sql {
        w.out.count("fault_sqlite_statement_failed", 1);
    }
    for l in log {
        w.out.log.ev(format_args!("req{ri} {l}"));
    }
    for c in counters {
        w.out.count(c, 1);
    }
    w.out.violations.extend(vio);
    let (fired_error, fired_crash, fired_stale, error_in_sync, store_calls) = {
        let p = w.plan.lock().unwrap();
        (p.fired_error, p.fired_crash, p.fired_stale, p.error_in_sync, p.log.join(","))
    };
    if fired_stale {
        w.out.count("fault_stale_none_answer", 1);
    }
    w.out.log.ev(format_args!("req{ri} store calls: [{store_calls}]"));
    if fired_error {
        w.out.count("fault_store_error", 1);
    }
    if fired_crash {
        w.out.count("fault_request_crashed", 1);
    }
    if req.abandon {
        w.out.count("fault_request_abandoned", 1);
    }
    if panicked {
        // The request died inside the session machinery. No response, hence no cookie: C11's
        // premise is not met; counted as an observation and handled like a crashed request.
        let msg = crate::take_panics().join(" | ");
        w.out.log.ev(format_args!("req{ri} PANICKED: {}", msg.chars().take(200).collect::<String>()));
        w.out.count(if fired_error || fired_crash || fired_sql { "panic_after_injected_fault" } else { "observation_panic_without_fault" }, 1);
    }
    // ---- after the request
    let session_cookie: Option<SetCookie> = {
        // what the middleware put into ResponseCookies, rendered by the real injector
        match pavex::cookie::inject_response_cookies(Response::ok(), response_cookies, &w.processor) {
            Ok(resp) => resp
                .headers()
                .get_all(http::header::SET_COOKIE)
                .iter()
                .filter_map(|v| v.to_str().ok())
                .map(parse_set_cookie)
                .find(|c| c.name == w.cfg.cookie_name || pct_decode(&c.name) == w.cfg.cookie_name),
            Err(_) => None,
        }
    };
    let fired_error = fired_error || fired_sql;
    let faulted = fired_error || fired_crash || fired_stale || crashed || req.abandon;
    // abstract state reached at finalisation (reach measure)
    {
        let idk = match (&rm.presented, rm.renamed) {
            (Some(_), false) => "existing",
            (Some(_), true) => "renamed",
            (None, false) => "new",
            (None, true) => "new-cycled",
        };
        let srv = match &rm.srv {
            Srv::NotLoaded => "not-loaded",
            Srv::Loaded { changed: true, .. } => "changed",
            Srv::Loaded { exists: Tri::Yes, .. } => "unchanged",
            Srv::Loaded { .. } => "absent",
            Srv::Deleted => "marked",
            Srv::Unknown => "unknown",
        };
        let outcome = match &finalize_result {
            Some(Ok(())) => "ok",
            Some(Err(_)) => "err",
            None => "dropped",
        };
        w.out.states.push(format!("{idk}|{srv}|cli_touched={}|inv={}|store=[{}]|{outcome}", rm.cli_touched, rm.inv, store_calls));
    }
    match (&finalize_result, faulted) {
        (Some(Ok(())), false) => {
            w.out.count("finalize_ok", 1);
            after_success(w, ri, req, rm, session_cookie, shape, t_req_start);
        }
        (Some(Ok(())), true) if error_in_sync && !fired_crash && !fired_stale && !fired_sql && !crashed && !req.abandon => {
            // The only fault was a store error under an explicit sync(); the handler carried on and
            // the request was finalised successfully: a cookie went out, so C11 applies in full —
            // what the next request sees is what this one ended with.
            w.out.count("finalize_ok_after_failed_explicit_sync", 1);
            after_success(w, ri, req, rm, session_cookie, shape, t_req_start);
        }
        (Some(Ok(())), true) => {
            // a load failed earlier in the request and the handler carried on: treat like a failure
            w.out.count("finalize_ok_after_fault", 1);
            // Whatever failed on the way: a REMOVAL cookie tells the client that the session is over,
            // so the record must be gone by now (a store that could not delete it makes the request
            // fail instead, and no cookie goes out).
            // (Not judged when the injected fault was a store that ANSWERED WRONGLY — a stale "no such
            // record" to a load: a session that was told there is no record has nothing to delete, and after
            // `cycle_id(); sync()` it has rightly forgotten the old id. The clause is about stores that fail,
            // not about stores that lie; found by the thorough tier, 22 runs in 20 million.)
            if fired_stale && session_cookie.as_ref().map(|c| c.removal).unwrap_or(false) {
                w.out.count("removal_cookie_after_a_stale_answer_not_judged", 1);
            } else if let (Some(c), Some(old)) = (session_cookie.as_ref().filter(|c| c.removal), rm.presented.clone()) {
                w.out.count("removal_cookie_after_fault_checked", 1);
                if let Some(m) = w.peek_live(&old) {
                    w.out.violations.push(viol("C11", "invalidate", format!("removal cookie although the record survives (store fault) {shape}"), format!("req{ri}: a store call failed, the response nevertheless carries the removal cookie `{}`, and the store still serves {m:?} under the old id", c.name)));
                }
            }
            check_c12_cookie(w, ri, &rm, session_cookie.as_ref(), shape, true);
            adopt_after_failure(w, ri, &rm, session_cookie, shape);
        }
        (Some(Err(e)), _) => {
            w.out.log.ev(format_args!("req{ri} finalize failed: {}", e.chars().take(120).collect::<String>()));
            if !faulted {
                if e.contains("EncryptionRequired") || e.contains("CryptoRequired") {
                    w.out.count("finalize_refused_unprotected_cookie", 1);
                    check_crypto_refusal(w, ri, &rm, e, shape);
                } else {
                    // Not a C11 violation by the letter of the property (no cookie was emitted);
                    // counted, and the model re-reads the durable state.
                    w.out.count("observation_finalize_failed_without_fault", 1);
                    let kind: String = e.chars().take_while(|c| c.is_ascii_alphanumeric() || *c == '(').collect();
                    w.out.count(&format!("observation_finalize_failed_without_fault:{kind}"), 1);
                }
            }
            // C12.2: after Err no session cookie was added
            if let Some(c) = &session_cookie {
                w.out.violations.push(viol("C12", "no-cookie-on-error", format!("cookie emitted on error removal={}", c.removal), format!("req{ri}: finalize_session returned Err but a `{}` cookie is in the response", c.name)));
            }
            adopt_after_failure(w, ri, &rm, None, shape);
        }
        (None, _) => {
            // crashed / abandoned before or during finalisation: nothing reaches the client
            adopt_after_failure(w, ri, &rm, None, shape);
        }
    }
}

/// The n-th value written in a run. Mostly a unique string (so that every read is attributable to
/// one write); one in seven each is JSON `null`, a unique number, a nested document with a `null`
/// member and an empty array — shapes a serialisation shortcut might drop or rewrite.
fn value_for(key: &str, n: u64) -> Value {
    match n % 7 {
        2 => Value::Null,
        4 => Value::from(1_000_000 + n),
        5 => serde_json::json!({ "m": format!("{key}:{n}"), "z": null, "l": [] }),
        6 if n % 14 == 6 => Value::String(String::new()),
        _ => Value::String(format!("{key}:{n}")),
    }
}

fn short(id: &str) -> String {
    id.chars().take(8).collect()
}

fn check_debug(session: &Session<'_>, rm: &ReqModel, ri: usize, shape: &str, vio: &mut Vec<Violation>) {
    let d = format!("{session:?}");
    for id in &rm.ids_held {
        let simple = id.replace('-', "");
        if d.contains(id.as_str()) || d.contains(&simple) || d.to_lowercase().contains(&id.to_lowercase()) {
            vio.push(viol("C12", "debug-hides-id", "session id in Debug output".into(), format!("req{ri}: Debug output of the session contains the session id {id} {shape}")));
        }
    }
}


#[allow(clippy::too_many_arguments)]
fn mismatch(vio: &mut Vec<Violation>, shape: &str, ri: usize, oi: usize, what: &str, key: &str, got: String, want: String, rm: &ReqModel) {
    vio.push(viol(
        "C11",
        "carry-over",
        format!("{what} {shape}"),
        format!("req{ri} op{oi} {what}({key}): the session returned {got}, the reference model says {want} (presented id {:?})", rm.presented.as_ref().map(|i| short(i))),
    ));
}

#[allow(clippy::too_many_arguments)]
async fn apply_op(
    s: &mut Session<'_>,
    op: &Op,
    rm: &mut ReqModel,
    model: &mut Model,
    cfg: &Cfg,
    arm: &str,
    ri: usize,
    oi: usize,
    shape: &str,
    vio: &mut Vec<Violation>,
    log: &mut Vec<String>,
    counters: &mut Vec<&'static str>,
    plan: &Arc<Mutex<FaultPlan>>,
) {
    let strict_values = true;
    let _ = arm;
    // model-side lazy load
    fn model_load(rm: &mut ReqModel, model: &Model, cfg: &Cfg, now_lo: i64, now_hi: i64, counters: &mut Vec<&'static str>, observed_invalidated: bool) {
        if rm.srv != Srv::NotLoaded {
            return;
        }
        let Some(id) = &rm.presented else {
            rm.srv = Srv::Loaded { exists: Tri::No, map: Map::new(), changed: false };
            return;
        };
        let missing = |rm: &mut ReqModel, counters: &mut Vec<&'static str>| {
            if cfg.reject_missing {
                rm.inv = true;
                rm.srv = Srv::Deleted;
                counters.push("rejected_missing_state");
            } else {
                rm.srv = Srv::Loaded { exists: Tri::No, map: Map::new(), changed: false };
                counters.push("allowed_missing_state");
            }
        };
        match model.durable.get(id) {
            None => missing(rm, counters),
            Some(rec) => {
                if now_hi < rec.deadline {
                    rm.srv = Srv::Loaded { exists: Tri::Yes, map: rec.map.clone(), changed: false };
                } else if now_lo >= rec.deadline {
                    counters.push("loaded_after_expiry");
                    missing(rm, counters);
                } else {
                    // the clock ticked across the deadline during the load: either answer
                    counters.push("loaded_inside_deadline_window");
                    rm.srv = Srv::Unknown;
                    if observed_invalidated {
                        rm.inv = true;
                        rm.srv = Srv::Deleted;
                    }
                }
            }
        }
    }
    let t_lo = seams::clock_ns();
    match op {
        Op::SGet(k) => {
            let key = SKEYS[*k as usize % 3];
            let got = s.get_raw(key).await.map(|v| v.cloned());
            let t_hi = seams::clock_ns();
            let Ok(got) = got else {
                rm.srv = Srv::Unknown;
                return;
            };
            model_load(rm, model, cfg, t_lo, t_hi, counters, s.is_invalidated());
            adopt_invalidation(s, rm);
            log.push(format!("sget {key} -> {got:?}"));
            match &rm.srv {
                Srv::Loaded { map, .. } => {
                    let want = map.get(key).cloned();
                    if got != want && strict_values {
                        mismatch(vio, shape, ri, oi, "server.get", key, format!("{got:?}"), format!("{want:?}"), rm);
                    }
                }
                Srv::Deleted => {
                    if got.is_some() {
                        mismatch(vio, shape, ri, oi, "server.get", key, format!("{got:?}"), "None (state deleted / session invalidated)".into(), rm);
                    }
                }
                _ => {}
            }
        }
        Op::SInsert(k) => {
            let key = SKEYS[*k as usize % 3];
            model.next_val += 1;
            let val = value_for(key, model.next_val);
            model.written.entry(key.to_string()).or_default().insert(val.to_string());
            let got = s.insert_raw(key, val.clone()).await;
            let t_hi = seams::clock_ns();
            let Ok(got) = got else {
                rm.srv = Srv::Unknown;
                return;
            };
            model_load(rm, model, cfg, t_lo, t_hi, counters, s.is_invalidated());
            adopt_invalidation(s, rm);
            log.push(format!("sinsert {key}={val} -> {got:?}"));
            match &mut rm.srv {
                Srv::Loaded { map, changed, .. } => {
                    let want = map.insert(key.to_string(), val);
                    *changed = true;
                    if got != want && strict_values {
                        mismatch(vio, shape, ri, oi, "server.insert", key, format!("{got:?}"), format!("{want:?}"), rm);
                    }
                }
                Srv::Deleted => {
                    if got.is_some() {
                        mismatch(vio, shape, ri, oi, "server.insert", key, format!("{got:?}"), "None (state deleted / session invalidated)".into(), rm);
                    }
                }
                _ => {}
            }
        }
        Op::SRemove(k) => {
            let key = SKEYS[*k as usize % 3];
            let got = s.remove_raw(key).await;
            let t_hi = seams::clock_ns();
            let Ok(got) = got else {
                rm.srv = Srv::Unknown;
                return;
            };
            model_load(rm, model, cfg, t_lo, t_hi, counters, s.is_invalidated());
            adopt_invalidation(s, rm);
            log.push(format!("sremove {key} -> {got:?}"));
            match &mut rm.srv {
                Srv::Loaded { map, changed, .. } => {
                    let want = map.remove(key);
                    if want.is_some() {
                        *changed = true;
                        counters.push("server_remove_of_present_key");
                    }
                    if got != want && strict_values {
                        mismatch(vio, shape, ri, oi, "server.remove", key, format!("{got:?}"), format!("{want:?}"), rm);
                    }
                }
                Srv::Deleted => {
                    if got.is_some() {
                        mismatch(vio, shape, ri, oi, "server.remove", key, format!("{got:?}"), "None".into(), rm);
                    }
                }
                _ => {}
            }
        }
        Op::SClear => {
            let r = s.clear().await;
            let t_hi = seams::clock_ns();
            if r.is_err() {
                rm.srv = Srv::Unknown;
                return;
            }
            model_load(rm, model, cfg, t_lo, t_hi, counters, s.is_invalidated());
            adopt_invalidation(s, rm);
            log.push("sclear".into());
            if let Srv::Loaded { map, changed, .. } = &mut rm.srv {
                if !map.is_empty() {
                    map.clear();
                    *changed = true;
                }
            }
        }
        Op::SIsEmpty => {
            let got = s.is_empty().await;
            let t_hi = seams::clock_ns();
            let Ok(got) = got else {
                rm.srv = Srv::Unknown;
                return;
            };
            model_load(rm, model, cfg, t_lo, t_hi, counters, s.is_invalidated());
            adopt_invalidation(s, rm);
            log.push(format!("sisempty -> {got}"));
            let want = match &rm.srv {
                Srv::Loaded { map, .. } => Some(map.is_empty()),
                Srv::Deleted => Some(true),
                _ => None,
            };
            if let Some(want) = want {
                if got != want && strict_values {
                    mismatch(vio, shape, ri, oi, "server.is_empty", "", got.to_string(), want.to_string(), rm);
                }
            }
        }
        Op::ForceLoad => {
            let r = s.force_load().await;
            let t_hi = seams::clock_ns();
            if r.is_err() {
                rm.srv = Srv::Unknown;
                return;
            }
            model_load(rm, model, cfg, t_lo, t_hi, counters, s.is_invalidated());
            adopt_invalidation(s, rm);
            log.push("force_load".into());
        }
        Op::CGet(k) => {
            let key = CKEYS[*k as usize % 2];
            let got = s.client().get_raw(key).cloned();
            log.push(format!("cget {key} -> {got:?}"));
            // client-side reads never load; but an earlier load may have invalidated the session
            let want = if rm.inv { None } else { rm.cli.get(key).cloned() };
            if rm.srv != Srv::Unknown && got != want {
                mismatch(vio, shape, ri, oi, "client.get", key, format!("{got:?}"), format!("{want:?}"), rm);
            }
        }
        Op::CInsert(k) => {
            let key = CKEYS[*k as usize % 2];
            model.next_val += 1;
            let val = value_for(key, model.next_val);
            let got = s.client_mut().insert_raw(key, val.clone());
            log.push(format!("cinsert {key}={val} -> {got:?}"));
            if rm.srv == Srv::Unknown && s.is_invalidated() {
                rm.inv = true;
            }
            let want = if rm.inv { None } else { rm.cli.insert(key.to_string(), val) };
            if !rm.inv {
                rm.cli_touched = true;
            }
            if got != want {
                mismatch(vio, shape, ri, oi, "client.insert", key, format!("{got:?}"), format!("{want:?}"), rm);
            }
        }
        Op::CRemove(k) => {
            let key = CKEYS[*k as usize % 2];
            let got = s.client_mut().remove_raw(key);
            log.push(format!("cremove {key} -> {got:?}"));
            if rm.srv == Srv::Unknown && s.is_invalidated() {
                rm.inv = true;
            }
            let want = if rm.inv { None } else { rm.cli.remove(key) };
            if want.is_some() {
                rm.cli_touched = true;
            }
            if got != want {
                mismatch(vio, shape, ri, oi, "client.remove", key, format!("{got:?}"), format!("{want:?}"), rm);
            }
        }
        Op::CClear => {
            s.client_mut().clear();
            log.push("cclear".into());
            if rm.srv == Srv::Unknown && s.is_invalidated() {
                rm.inv = true;
            }
            if !rm.inv && !rm.cli.is_empty() {
                rm.cli.clear();
                rm.cli_touched = true;
            }
        }
        Op::CIsEmpty => {
            let got = s.client().is_empty();
            log.push(format!("cisempty -> {got}"));
            let want = rm.inv || rm.cli.is_empty();
            if rm.srv != Srv::Unknown && got != want {
                mismatch(vio, shape, ri, oi, "client.is_empty", "", got.to_string(), want.to_string(), rm);
            }
        }
        Op::Delete => {
            s.delete();
            log.push("delete".into());
            rm.srv = Srv::Deleted;
        }
        Op::CycleId => {
            s.cycle_id();
            log.push("cycle_id".into());
            rm.renamed = true;
            counters.push("cycle_id_called");
        }
        Op::Invalidate => {
            s.invalidate();
            log.push("invalidate".into());
            rm.inv = true;
            rm.srv = Srv::Deleted;
            counters.push("invalidate_called");
        }
        Op::Sync => {
            // An explicit sync is a durable write in the middle of the request; the reference
            // model does not predict its internals — it re-reads the durable state afterwards
            // (see `explicit_sync_in_request`).
            plan.lock().unwrap().in_sync = true;
            let r = s.sync().await;
            let failed_by_fault = {
                let mut p = plan.lock().unwrap();
                p.in_sync = false;
                r.is_err() && p.error_in_sync
            };
            log.push(format!("sync -> {}", if r.is_ok() { "ok" } else { "err" }));
            if failed_by_fault {
                // The store failed under an explicit sync(): the in-request view is untouched (the
                // request may go on and finalisation will try again), so the model keeps its view
                // and the rest of the request is checked as strictly as before.
                counters.push("explicit_sync_failed_by_fault");
                return;
            }
            counters.push("explicit_sync");
            if r.is_ok() {
                if let Srv::Loaded { changed, exists, map } = &mut rm.srv {
                    if *changed || !map.is_empty() {
                        *exists = Tri::Yes;
                    }
                    *changed = false;
                }
                if rm.srv == Srv::Deleted && !rm.inv {
                    // the record is gone; the session goes on with an empty server state
                    rm.srv = Srv::Loaded { exists: Tri::No, map: Map::new(), changed: false };
                }
            } else {
                rm.srv = Srv::Unknown;
            }
            if r.is_err() {
                counters.push("explicit_sync_failed");
            }
        }
        Op::Observe => {
            for (i, _) in SKEYS.iter().enumerate() {
                Box::pin(apply_op(s, &Op::SGet(i as u8), rm, model, cfg, arm, ri, oi, shape, vio, log, counters, plan)).await;
            }
            for (i, _) in CKEYS.iter().enumerate() {
                Box::pin(apply_op(s, &Op::CGet(i as u8), rm, model, cfg, arm, ri, oi, shape, vio, log, counters, plan)).await;
            }
        }
        Op::DebugFmt => {
            check_debug(s, rm, ri, shape, vio);
            counters.push("debug_checked");
        }
        Op::Join(j) => {
            counters.push("join_executed");
            let n = j.reads.len();
            {
                let mut p = plan.lock().unwrap();
                p.join = Some(JoinPlan { delays: j.delays.clone(), stale_none: if arm == "fault" { j.stale_none } else { None }, next_call: 0, answers: Vec::new() });
            }
            #[derive(Debug)]
            enum JOut {
                Get(&'static str, Result<Option<Value>, ()>),
                Empty(Result<bool, ()>),
                Load(Result<(), ()>),
            }
            let mut outs: Vec<Option<JOut>> = (0..n).map(|_| None).collect();
            {
                let sref: &Session<'_> = &*s;
                let mut futs: Vec<Option<std::pin::Pin<Box<dyn Future<Output = JOut> + '_>>>> = j
                    .reads
                    .iter()
                    .map(|r| -> Option<std::pin::Pin<Box<dyn Future<Output = JOut> + '_>>> {
                        Some(match r {
                            JRead::SGet(k) => {
                                let key = SKEYS[*k as usize % 3];
                                Box::pin(async move { JOut::Get(key, sref.get_raw(key).await.map(|v| v.cloned()).map_err(|_| ())) })
                            }
                            JRead::IsEmpty => Box::pin(async move { JOut::Empty(sref.is_empty().await.map_err(|_| ())) }),
                            JRead::ForceLoad => Box::pin(async move { JOut::Load(sref.force_load().await.map_err(|_| ())) }),
                        })
                    })
                    .collect();
                // The SQLite backend answers from a real thread: there the reads run one after the
                // other (deterministic), the memory backend is interleaved poll by poll.
                let sequential = cfg.sqlite;
                let mut step = 0usize;
                std::future::poll_fn(|cx| {
                    let mut rounds = 0;
                    loop {
                        let pending: Vec<usize> = (0..n).filter(|i| outs[*i].is_none()).collect();
                        if pending.is_empty() {
                            return Poll::Ready(());
                        }
                        if rounds >= 256 {
                            return Poll::Pending;
                        }
                        rounds += 1;
                        let pick = if sequential {
                            pending[0]
                        } else if step < j.order.len() {
                            pending[j.order[step] as usize % pending.len()]
                        } else {
                            pending[step % pending.len()]
                        };
                        match futs[pick].as_mut().expect("pending read").as_mut().poll(cx) {
                            Poll::Ready(o) => {
                                outs[pick] = Some(o);
                                futs[pick] = None;
                            }
                            Poll::Pending => {
                                if sequential {
                                    return Poll::Pending;
                                }
                            }
                        }
                        if !j.step_ms.is_empty() {
                            let ms = j.step_ms[step % j.step_ms.len()];
                            if ms > 0 {
                                seams::advance_clock_ns(ms as i64 * 1_000_000);
                            }
                        }
                        step += 1;
                    }
                })
                .await;
            }
            let jp = plan.lock().unwrap().join.take().unwrap_or_default();
            let outs: Vec<JOut> = outs.into_iter().flatten().collect();
            log.push(format!("join {:?} -> {:?}; loads: {:?}", j.reads, outs, jp.answers.iter().map(|a| (a.call, a.stale, a.got.as_ref().map(|m| m.as_ref().map(|m| m.len())).map_err(|_| "err"))).collect::<Vec<_>>()));
            if jp.answers.len() >= 2 {
                counters.push("join_two_loads_in_flight");
                let ok: Vec<&Option<Map>> = jp.answers.iter().filter_map(|a| a.got.as_ref().ok()).collect();
                if ok.windows(2).any(|w| w[0] != w[1]) {
                    counters.push("join_loads_disagreed");
                }
            }
            let invalidated_now = s.is_invalidated();
            let n_err_reads = outs
                .iter()
                .filter(|o| matches!(o, JOut::Get(_, Err(())) | JOut::Empty(Err(())) | JOut::Load(Err(()))))
                .count();
            let n_err_answers = jp.answers.iter().filter(|a| a.got.is_err()).count();
            // does one (server state, invalidation flag) explain every read that came back?
            let explains = |srv: &Srv, inv: bool| -> bool {
                if invalidated_now != inv {
                    return false;
                }
                outs.iter().all(|o| match (o, srv) {
                    (JOut::Get(_, Err(())), _) | (JOut::Empty(Err(())), _) | (JOut::Load(_), _) => true,
                    (JOut::Get(k, Ok(v)), Srv::Loaded { map, .. }) => map.get(*k) == v.as_ref(),
                    (JOut::Get(_, Ok(v)), Srv::Deleted) => v.is_none(),
                    (JOut::Empty(Ok(e)), Srv::Loaded { map, .. }) => *e == map.is_empty(),
                    (JOut::Empty(Ok(e)), Srv::Deleted) => *e,
                    _ => true,
                })
            };
            if n_err_reads > n_err_answers {
                vio.push(viol("C11", "concurrent-reads-one-view", format!("join: a read failed although no load failed {shape}"), format!("req{ri} op{oi}: {n_err_reads} concurrent read(s) returned an error, the store failed {n_err_answers} load(s): {outs:?}")));
            }
            match &rm.srv {
                Srv::NotLoaded => {
                    let Some(id) = rm.presented.clone() else { return };
                    // every load answer is what the previous request ended with (the property itself)
                    for a in jp.answers.iter().filter(|a| !a.stale) {
                        let Ok(got) = &a.got else { continue };
                        let want: Option<Option<Map>> = match model.durable.get(&id) {
                            None => Some(None),
                            Some(rec) if a.t_hi < rec.deadline => Some(Some(rec.map.clone())),
                            Some(rec) if a.t_lo >= rec.deadline => Some(None),
                            Some(_) => None,
                        };
                        if let Some(want) = want {
                            if &want != got {
                                mismatch(vio, shape, ri, oi, "server.load(join)", "", format!("{got:?}"), format!("{want:?}"), rm);
                            }
                        }
                    }
                    let mut accepted: Vec<(Srv, bool)> = Vec::new();
                    for a in &jp.answers {
                        let Ok(got) = &a.got else { continue };
                        let cand = match got {
                            Some(map) => (Srv::Loaded { exists: Tri::Yes, map: map.clone(), changed: false }, rm.inv),
                            None if cfg.reject_missing => (Srv::Deleted, true),
                            None => (Srv::Loaded { exists: Tri::No, map: Map::new(), changed: false }, rm.inv),
                        };
                        if explains(&cand.0, cand.1) && !accepted.contains(&cand) {
                            accepted.push(cand);
                        }
                    }
                    let any_ok = jp.answers.iter().any(|a| a.got.is_ok());
                    if any_ok && accepted.is_empty() {
                        vio.push(viol(
                            "C11",
                            "concurrent-reads-one-view",
                            format!("join: reads and invalidation flag are not explained by any single load answer {shape}"),
                            format!(
                                "req{ri} op{oi}: concurrent reads {:?} returned {outs:?} with is_invalidated()={invalidated_now}; the store answered the loads with {:?} (policy {}): no single answer, kept as THE server state, explains what the session shows",
                                j.reads,
                                jp.answers.iter().map(|a| &a.got).collect::<Vec<_>>(),
                                if cfg.reject_missing { "reject" } else { "allow" }
                            ),
                        ));
                        rm.srv = Srv::Unknown;
                    } else if accepted.len() == 1 {
                        let (srv, inv) = accepted.remove(0);
                        if inv && !rm.inv {
                            counters.push("rejected_missing_state");
                        }
                        rm.srv = srv;
                        rm.inv = inv;
                    } else if any_ok {
                        rm.srv = Srv::Unknown;
                        adopt_invalidation(s, rm);
                    } else {
                        rm.srv = Srv::Unknown;
                    }
                }
                Srv::Unknown => {
                    adopt_invalidation(s, rm);
                }
                srv => {
                    // the state was loaded before the join: plain reads of it
                    if !explains(srv, rm.inv) {
                        mismatch(vio, shape, ri, oi, "server reads (join)", "", format!("{outs:?} invalidated={invalidated_now}"), format!("reads of {srv:?} invalidated={}", rm.inv), rm);
                    }
                }
            }
        }
        Op::Wait(ms) => {
            seams::advance_clock_ns(*ms as i64 * 1_000_000);
            log.push(format!("wait {ms}ms"));
            counters.push("clock_moved_inside_request");
        }
    }
}

/// Where the model cannot know whether a record exists (empty record / deadline window), it
/// adopts what the session shows after the load.
fn adopt_invalidation(s: &Session<'_>, rm: &mut ReqModel) {
    if rm.srv == Srv::Unknown && s.is_invalidated() && !rm.inv {
        rm.inv = true;
        rm.srv = Srv::Deleted;
    }
}

fn decode_cookie(w: &World<'_>, c: &SetCookie) -> Option<Wire> {
    let header = format!("{}={}", c.name, c.raw_value);
    let mut rc = RequestCookies::new();
    rc.extend_from_header(&header, &w.processor).ok()?;
    let v = rc.get(&c.name).or_else(|| rc.get(&pct_decode(&c.name)))?;
    serde_json::from_str::<Wire>(v.value()).ok()
}

/// C12 invariants 1 and 3 on an emitted cookie.
fn check_c12_cookie(w: &mut World<'_>, ri: usize, rm: &ReqModel, c: Option<&SetCookie>, shape: &str, _faulted: bool) {
    let Some(c) = c else { return };
    let cfg = w.cfg.clone();
    let cfg = &cfg;
    let protected_enc = w.crypto_now == Crypto::Encrypt && cfg.rule_names_session_cookie;
    let protected_sig = w.crypto_now == Crypto::Sign && cfg.rule_names_session_cookie;
    // a cookie under the session's name — the removal cookie included — is attached only if the
    // processor signs or encrypts that name; otherwise the request fails
    if !(protected_enc || protected_sig) {
        w.out.violations.push(viol("C12", "cookie-protected", format!("unprotected cookie crypto={:?} names_session={} removal={}", w.crypto_now, cfg.rule_names_session_cookie, c.removal), format!("req{ri}: a {} cookie was attached although the processor neither signs nor encrypts `{}`", if c.removal { "removal" } else { "session" }, c.name)));
    }
    if c.removal {
        w.out.count("removal_cookie_emitted", 1);
        // what `will_sign`/`will_encrypt` promised must be what the wire carries: a removal cookie
        // has an empty value, its signed or encrypted form does not (MAC / nonce + tag)
        if (protected_enc || protected_sig) && c.raw_value.is_empty() {
            w.out.violations.push(viol("C12", "cookie-protected", format!("removal cookie unprocessed on the wire (cookie name percent-encoded: {})", w.cfg.percent_encode && c.name != w.cfg.cookie_name), format!("req{ri}: the processor signs/encrypts `{}` and finalize_session attached the removal cookie on that ground, but the Set-Cookie header carries it verbatim (empty value, no MAC/ciphertext)", c.name)));
        } else if protected_enc || protected_sig {
            w.out.count("removal_cookie_processed_on_the_wire", 1);
        }
    } else {
        w.out.count("session_cookie_emitted", 1);
        let client_nonempty = !rm.inv && !rm.cli.is_empty();
        if client_nonempty && !protected_enc {
            w.out.violations.push(viol("C12", "client-state-encrypted", format!("plaintext client state crypto={:?}", w.crypto_now), format!("req{ri}: client-side state {:?} is non-empty but the cookie is not encrypted", rm.cli)));
        }
        // on the wire: when encryption is required the plaintext must not be visible
        if protected_enc {
            // the signature says whether the cookie name is one the processor rewrites (percent-
            // encodes) before looking up its crypto rule: that is the known root cause below
            let name_rewritten = w.cfg.percent_encode && c.name != w.cfg.cookie_name;
            for id in &rm.ids_held {
                if c.raw_value.contains(id.as_str()) {
                    w.out.violations.push(viol("C12", "client-state-encrypted", format!("id visible on the wire (cookie name percent-encoded: {name_rewritten})"), format!("req{ri}: the processor is configured to encrypt `{}` and finalize_session accepted it, yet the emitted value contains the session id in clear", w.cfg.cookie_name)));
                }
            }
            for v in rm.cli.values() {
                if let Some(sv) = v.as_str().filter(|s| !s.is_empty()) {
                    if c.raw_value.contains(sv) {
                        w.out.violations.push(viol("C12", "client-state-encrypted", format!("value visible on the wire (cookie name percent-encoded: {name_rewritten})"), format!("req{ri}: the processor is configured to encrypt `{}` and finalize_session accepted it, yet the emitted value contains the client value {sv} in clear", w.cfg.cookie_name)));
                    }
                }
            }
        }
    }
    // attributes
    let has = |a: &str| c.attrs.iter().any(|x| x == a);
    let get = |p: &str| c.attrs.iter().find_map(|x| x.strip_prefix(p).map(|s| s.to_string()));
    let mut bad: Vec<String> = Vec::new();
    if get("Domain=") != cfg.domain {
        bad.push(format!("Domain {:?} != {:?}", get("Domain="), cfg.domain));
    }
    if get("Path=") != cfg.path {
        bad.push(format!("Path {:?} != {:?}", get("Path="), cfg.path));
    }
    if !c.removal {
        let want_ss = match cfg.same_site {
            1 => Some("Strict".to_string()),
            2 => Some("Lax".to_string()),
            3 => Some("None".to_string()),
            _ => None,
        };
        if get("SameSite=") != want_ss {
            bad.push(format!("SameSite {:?} != {:?}", get("SameSite="), want_ss));
        }
        // SameSite=None forces Secure in the renderer only when `secure` is unset; the session
        // config always sets it explicitly when true and leaves it unset when false.
        let want_secure = cfg.secure || cfg.same_site == 3;
        if has("Secure") != want_secure {
            bad.push(format!("Secure {} != {}", has("Secure"), want_secure));
        }
        if has("HttpOnly") != cfg.http_only {
            bad.push(format!("HttpOnly {} != {}", has("HttpOnly"), cfg.http_only));
        }
        let want_max_age = if cfg.persistent { Some((cfg.ttl_ms / 1000).to_string()) } else { None };
        if get("Max-Age=") != want_max_age {
            bad.push(format!("Max-Age {:?} != {:?}", get("Max-Age="), want_max_age));
        }
    }
    if !bad.is_empty() {
        let which: Vec<&str> = bad.iter().map(|b| b.split(' ').next().unwrap_or("")).collect();
        w.out.violations.push(viol("C12", "cookie-attributes", format!("attrs {} removal={}", which.join("+"), c.removal), format!("req{ri}: {} {shape}", bad.join("; "))));
    }
}

fn check_crypto_refusal(w: &mut World<'_>, ri: usize, rm: &ReqModel, err: &str, shape: &str) {
    // the refusal must be justified by the configuration
    let cfg = w.cfg.clone();
    let cfg = &cfg;
    let protected_enc = w.crypto_now == Crypto::Encrypt && cfg.rule_names_session_cookie;
    let protected_sig = w.crypto_now == Crypto::Sign && cfg.rule_names_session_cookie;
    let client_nonempty = !rm.inv && !rm.cli.is_empty();
    let justified = (!protected_enc && !protected_sig) || (client_nonempty && !protected_enc) || rm.srv == Srv::Unknown;
    if !justified {
        w.out.violations.push(viol("C12", "refusal-justified", format!("refused although protected crypto={:?}", w.crypto_now), format!("req{ri}: finalize_session refused with {err} although the cookie would have been protected {shape}")));
    }
}

#[allow(clippy::too_many_arguments)]
fn after_success(w: &mut World<'_>, ri: usize, req: &Req, rm: ReqModel, cookie: Option<SetCookie>, shape: &str, t0: i64) {
    check_c12_cookie(w, ri, &rm, cookie.as_ref(), shape, false);
    let unknown = rm.srv == Srv::Unknown;
    let _ = req;
    // ---- invalidated session: removal cookie iff the client had a session; record gone
    let decoded = cookie.as_ref().filter(|c| !c.removal).and_then(|c| decode_cookie(w, c));
    if rm.inv {
        let got_removal = cookie.as_ref().map(|c| c.removal).unwrap_or(false);
        if rm.presented.is_some() && !got_removal {
            w.out.violations.push(viol("C11", "invalidate", format!("no removal cookie {shape}"), format!("req{ri}: the session was invalidated but the response carries {} instead of a removal cookie", if cookie.is_some() { "a regular session cookie" } else { "no cookie" })));
        }
        if let (true, Some(c)) = (got_removal, cookie.as_ref()) {
            // a removal cookie only removes the cookie it names: same Domain and Path as the
            // session cookie it is meant to delete
            let get = |p: &str| c.attrs.iter().find_map(|x| x.strip_prefix(p).map(|s| s.to_string()));
            if get("Domain=") != w.cfg.domain || get("Path=") != w.cfg.path {
                w.out.violations.push(viol("C11", "invalidate", format!("removal cookie has another scope {shape}"), format!("req{ri}: removal cookie carries Domain={:?} Path={:?}, the session cookie was set with Domain={:?} Path={:?}: the client keeps the session cookie", get("Domain="), get("Path="), w.cfg.domain, w.cfg.path)));
            }
        }
        if rm.presented.is_none() && cookie.is_some() {
            w.out.violations.push(viol("C11", "invalidate", format!("cookie for a fresh invalidated session {shape}"), format!("req{ri}: a brand-new session was invalidated, yet a cookie was sent")));
        }
        if let Some(old) = &rm.presented {
            if let Some(m) = w.peek_live(old) {
                w.out.violations.push(viol("C11", "invalidate", format!("record survives invalidate {shape}"), format!("req{ri}: after invalidate() the store still serves {m:?} under the old id")));
            }
        }
        w.model.current = None;
        w.out.count("state_after_invalidate_checked", 1);
        w.resync();
        return;
    }
    if cookie.as_ref().map(|c| c.removal).unwrap_or(false) {
        if !unknown {
            w.out.violations.push(viol("C11", "carry-over", format!("unexpected removal cookie {shape}"), format!("req{ri}: a removal cookie was sent although the session was not invalidated")));
        }
        w.model.current = None;
        w.resync();
        return;
    }
    // ---- what the request ended with, server side
    // Some(map): the record must exist with exactly this content; None + No: must not be
    // loadable; Maybe: an empty record may or may not have been created (creation policy is not
    // over-specified) / nothing is known.
    let (srv_map, srv_exists): (Option<Map>, Tri) = match &rm.srv {
        Srv::Deleted => (None, Tri::No),
        Srv::Loaded { exists, map, changed } => {
            if *changed || !map.is_empty() || *exists == Tri::Yes {
                (Some(map.clone()), Tri::Yes)
            } else {
                (None, Tri::Maybe)
            }
        }
        Srv::NotLoaded | Srv::Unknown => (None, Tri::Maybe),
    };
    let fresh_session_nothing_stored = rm.presented.is_none() && rm.cli.is_empty() && srv_exists != Tri::Yes;
    let Some(wire) = decoded else {
        if cookie.is_some() {
            w.out.violations.push(viol("C11", "cookie-roundtrip", format!("cookie not decodable {shape}"), format!("req{ri}: the emitted session cookie cannot be decoded by the same processor")));
        } else if !fresh_session_nothing_stored && !unknown {
            w.out.violations.push(viol("C11", "carry-over", format!("no cookie emitted {shape}"), format!("req{ri}: the request ended with state (client {:?}, server {:?}) but no session cookie was sent", rm.cli, srv_map)));
        }
        w.resync();
        return;
    };
    // ---- id expectations
    let new_id = wire.id.clone();
    match (&rm.presented, rm.renamed) {
        (Some(old), false) => {
            if &new_id != old {
                w.out.violations.push(viol("C11", "carry-over", format!("id changed without cycle_id {shape}"), format!("req{ri}: cookie names id {} but the request came with {}", short(&new_id), short(old))));
            }
        }
        (Some(old), true) => {
            if &new_id == old || w.model.all_ids.contains(&new_id) {
                w.out.violations.push(viol("C11", "cycle-id", format!("id not fresh after cycle_id {shape}"), format!("req{ri}: after cycle_id() the cookie still names a previously used id {}", short(&new_id))));
            }
            w.out.count("state_after_cycle_checked", 1);
        }
        (None, _) => {
            if w.model.all_ids.contains(&new_id) {
                w.out.violations.push(viol("C11", "cycle-id", format!("new session reuses an id {shape}"), format!("req{ri}: a new session got the already used id {}", short(&new_id))));
            }
        }
    }
    // ---- client-side state inside the cookie
    if wire.values != rm.cli && !unknown {
        w.out.violations.push(viol("C11", "carry-over", format!("client state in cookie differs {shape}"), format!("req{ri}: cookie carries client state {:?}, the request ended with {:?}", wire.values, rm.cli)));
    }
    // ---- server-side state: what the next request will be served under the id the client now holds
    if !unknown {
        let actual = w.peek_live(&new_id);
        let written_now = matches!(&rm.srv, Srv::Loaded { changed: true, .. });
        match (&srv_map, srv_exists) {
            (Some(m), _) => {
                // A state written by this finalisation must be served right away. A state that
                // was merely loaded (or synced earlier in the request) may have expired since —
                // that is the TTL doing its job — but if the record is still there it must hold
                // exactly what the request ended with.
                let phys = w.peek_phys(&new_id);
                // (SQLite arm: deadlines are whole seconds, so with a TTL of 1-2 s a record written at
                // x.999 s can reach its deadline before this check runs; that is natural expiry as long
                // as the record got the full TTL counted from the start of that second)
                let t0_floor = t0.div_euclid(1_000_000_000) * 1_000_000_000;
                let expired_by_granularity = w.cfg.sqlite
                    && phys.as_ref().map(|r| &r.map == m && r.deadline <= w.now() && r.deadline >= t0_floor + w.cfg.ttl_ms as i64 * 1_000_000).unwrap_or(false);
                if written_now && expired_by_granularity && actual.is_none() {
                    w.out.count("sqlite_record_expired_within_its_first_second", 1);
                }
                let ok = if written_now { actual.as_ref() == Some(m) || expired_by_granularity } else { phys.as_ref().map(|r| &r.map == m && (actual.is_some() || r.deadline <= w.now())).unwrap_or(false) || (phys.is_none() && rm.presented.as_ref().and_then(|o| w.model.durable.get(o)).map(|r| r.deadline <= w.now()).unwrap_or(false)) };
                if !ok {
                    w.out.violations.push(viol(
                        "C11",
                        "carry-over",
                        format!("durable state differs {shape}"),
                        format!("req{ri}: the request ended with server state {m:?} but the store serves {actual:?} (physically {:?}) under id {}", phys.map(|r| r.map), short(&new_id)),
                    ));
                }
                w.out.count("durable_state_cross_checked", 1);
            }
            (None, Tri::No) => {
                if let Some(a) = &actual {
                    w.out.violations.push(viol("C11", "carry-over", format!("deleted state still served {shape}"), format!("req{ri}: the request deleted the server state but the store serves {a:?} under id {}", short(&new_id))));
                }
                w.out.count("durable_state_cross_checked", 1);
            }
            _ => {
                // an empty record may or may not exist; if one exists it must be empty — unless
                // the state was never loaded, in which case whatever was there stays
                if rm.srv != Srv::NotLoaded {
                    if let Some(a) = &actual {
                        if !a.is_empty() {
                            w.out.violations.push(viol("C11", "carry-over", format!("durable state differs {shape}"), format!("req{ri}: the request ended with an empty server state but the store serves {a:?}")));
                        }
                    }
                } else if let (Some(old), true) = (&rm.presented, rm.renamed) {
                    // not loaded + cycled: the record (if any) must have moved as it was
                    let before = w.model.durable.get(old).filter(|r| r.deadline > w.now()).map(|r| r.map.clone());
                    if before.is_some() && actual != before {
                        w.out.violations.push(viol("C11", "cycle-id", format!("state not moved to the new id {shape}"), format!("req{ri}: before cycle_id() the record held {before:?}; under the new id the store serves {actual:?}")));
                    }
                }
                w.out.count("durable_state_adopted", 1);
            }
        }
        // C11: after cycle_id() the state is reachable only under the new id
        if let (Some(old), true) = (&rm.presented, rm.renamed) {
            if let Some(m) = w.peek_live(old) {
                w.out.violations.push(viol("C11", "cycle-id", format!("old id still has state {shape}"), format!("req{ri}: after cycle_id() the store still serves {m:?} under the old id {}", short(old))));
            }
        }
    }
    // ---- the record the client's cookie now points at must live at least as long as promised:
    // either it kept the deadline it had (untouched / renamed) or it got a fresh TTL
    if !unknown {
        let before = rm.presented.as_ref().and_then(|o| w.model.durable.get(o)).map(|r| r.deadline);
        if let Some(after) = w.peek_phys(&new_id) {
            // the SQLite store keeps deadlines in whole seconds (`unixepoch() + ttl`): a record written at
            // x.7 s gets the deadline of one written at x.0 s. That is the granularity of the backend,
            // not a lost TTL: the floor is taken at the start of the second the request started in.
            let t0_floor = if w.cfg.sqlite { t0.div_euclid(1_000_000_000) * 1_000_000_000 } else { t0 };
            let fresh = t0_floor + w.cfg.ttl_ms as i64 * 1_000_000;
            if after.deadline < fresh && Some(after.deadline) != before {
                w.out.violations.push(viol(
                    "C11",
                    "carry-over",
                    format!("record outlives less than the TTL {shape}"),
                    format!("req{ri}: the record behind the new cookie expires {} ms after the request started (configured TTL {} ms, deadline before the request {:?})", (after.deadline - t0) / 1_000_000, w.cfg.ttl_ms, before.map(|b| (b - t0) / 1_000_000)),
                ));
            }
            w.out.count("deadline_checked", 1);
        }
    }
    w.model.all_ids.insert(new_id.clone());
    w.resync();
    let c = cookie.unwrap();
    w.model.jar.push(JarEntry { header: format!("{}={}", c.name, c.raw_value), id: new_id, client: wire.values });
    w.model.current = Some(w.model.jar.len() - 1);
}

/// After a failed, crashed, panicked or abandoned request the model re-reads the durable state
/// (relaxed deliberately and narrowly): a value found there must have been written for that key
/// in this run — never garbage, never another key's value.
fn adopt_after_failure(w: &mut World<'_>, ri: usize, rm: &ReqModel, cookie: Option<SetCookie>, shape: &str) {
    // a cookie may still have been emitted when only a load failed; the client keeps it
    if let Some(c) = cookie {
        if c.removal {
            w.model.current = None;
        } else if let Some(wire) = decode_cookie(w, &c) {
            w.model.all_ids.insert(wire.id.clone());
            w.model.jar.push(JarEntry { header: format!("{}={}", c.name, c.raw_value), id: wire.id, client: wire.values });
            w.model.current = Some(w.model.jar.len() - 1);
        }
    }
    w.resync();
    let mut bad = Vec::new();
    for (id, rec) in &w.model.durable {
        for (k, v) in &rec.map {
            let ok = w.model.written.get(k).map(|set| set.contains(&v.to_string())).unwrap_or(false);
            if !ok {
                bad.push(format!("{}: {k}={v}", short(id)));
            }
        }
    }
    for b in bad {
        w.out.violations.push(viol("C11", "no-foreign-values", format!("foreign value after failure {shape}"), format!("req{ri}: after a failed request the store holds {b}, which was never written for that key")));
    }
    let _ = rm;
    w.out.count("durable_state_adopted_after_failure", 1);
}

// ---------------------------------------------------------------------------------------------

fn gen_op(rng: &mut Rng, c12: bool) -> Op {
    let w: &[u32] = if c12 {
        &[3, 4, 2, 1, 1, 1, 2, 6, 2, 2, 1, 1, 2, 2, 1, 2, 4, 0]
    } else {
        &[5, 8, 5, 2, 2, 1, 3, 5, 3, 1, 1, 2, 3, 2, 2, 4, 1, 0]
    };
    match rng.weighted(w) {
        0 => Op::SGet(rng.below(3) as u8),
        1 => Op::SInsert(rng.below(3) as u8),
        2 => Op::SRemove(rng.below(3) as u8),
        3 => Op::SClear,
        4 => Op::SIsEmpty,
        5 => Op::ForceLoad,
        6 => Op::CGet(rng.below(2) as u8),
        7 => Op::CInsert(rng.below(2) as u8),
        8 => Op::CRemove(rng.below(2) as u8),
        9 => Op::CClear,
        10 => Op::CIsEmpty,
        11 => Op::Delete,
        12 => Op::CycleId,
        13 => Op::Invalidate,
        14 => Op::Sync,
        15 => Op::Observe,
        16 => Op::DebugFmt,
        _ => Op::Wait(0),
    }
}

impl Sim for SesSim {
    type Script = Script;
    fn name() -> &'static str {
        "sessim"
    }
    fn properties() -> &'static [&'static str] {
        &["C11", "C12"]
    }
    fn runs(_p: &str, tier: Tier) -> u64 {
        match tier {
            Tier::Quick => 300_000,
            Tier::Thorough => 20_000_000,
        }
    }
    fn meta(p: &str) -> SimMeta {
        let common_real = vec![
            "pavex_session: IncomingSession::extract, Session (all public operations), sync, finalize, finalize_session middleware".to_string(),
            "pavex::cookie: extract_request_cookies, inject_response_cookies, ResponseCookies; biscotti Processor (signing / AES-GCM encryption, percent-encoding)".to_string(),
            "pavex_session_memory_store::InMemorySessionStore (real expiry logic on the simulated wall clock)".to_string(),
        ];
        let stub = vec!["client + cookie jar".to_string(), "FaultyStore wrapper (forwards / fails the k-th call / stalls = crash)".to_string(), "wall clock (clock_gettime seam, ticks on every read, seeded jumps incl. backwards)".to_string(), "OS entropy (getrandom seam)".to_string()];
        if p == "C12" {
            SimMeta {
                rule: "Each run draws a cookie-processor configuration {no rule, signing, encryption} x {rule names the session cookie, names another cookie} x fallback key x percent-encoding, a session cookie configuration (name, Domain, Path, SameSite, Secure, HttpOnly, kind, TTL), a session-state configuration and 1-8 requests of 0-10 session operations each (same generator as C11, incl. stale-cookie replay, store faults, crashes, abandoned requests). Invariants are monitored in every request: cookie attached only if signed/encrypted, encrypted whenever client state is non-empty (also checked on the wire), no cookie on Err, exact attributes, id never in Debug output; a removal cookie attached on the ground of will_sign/will_encrypt is not empty on the wire; one run in 150 is a MAX-AGE scenario (persistent cookie, configured TTL at the edge of what a Duration holds, returning client that leaves the server state alone: Max-Age is the TTL clamped to what it can express). Non-trivial: >= 2 requests. Distinct: distinct (operation shape, configuration) hash.".into(),
                real: common_real,
                stub,
                assumptions: vec!["the crypto/cookie configuration dimension is plain seeded enumeration; the history and fault dimensions are the simulation".into()],
                fault_counters: vec!["fault_store_error".into(), "fault_request_crashed".into(), "fault_request_abandoned".into(), "fault_clock_jump_back".into()],
                expected_probes: vec!["session_cookie_emitted".into(), "removal_cookie_emitted".into(), "finalize_refused_unprotected_cookie".into(), "debug_checked".into()],
            }
        } else {
            SimMeta {
                rule: "Each run draws one SessionConfig from the cross product (server_state_creation, missing_server_state, extend_ttl, threshold in {None,0,0.5,0.8,1}, cookie kind, TTL) and 2-8 requests. Each request presents the latest cookie, an OLDER one (replay), none or garbage, advances the clock by a seeded step (arms: strict = total time < TTL; expiry = steps aimed at the deadlines incl. backward jumps; fault = the k-th store call fails or never returns, or the request is abandoned; one run in four also has a request with 2-3 server-side reads in flight AT ONCE on its one session — seeded store latencies, seeded poll order, clock steps between polls, and in the fault arm a stale `None` answer to one of the loads) and performs 0-10 operations from {server get/insert/remove/clear/is_empty/force_load, client get/insert/remove/clear/is_empty, delete, cycle_id, invalidate, explicit sync, observe-all} with unique values, then finalize_session. Every return value is compared with the reference model; after each request the cookie is decoded and (when fully determined) the store is cross-checked. One request in six carries other cookies next to the session cookie (same Cookie line, other header lines, unparsable ones on other lines). One run in twelve is an OVERLAP scenario instead of a sequence: after a set-up request two requests present the same cookie and are in flight at once (every store call is a scheduling point, a scripted bit string picks the request that moves next); checked there: every value read was written for that key, and a request that had loaded the record before another one invalidated / renamed the session does not leave non-empty state under the old id. Non-trivial: >= 2 requests. Distinct: distinct operation-shape hash.".into(),
                real: common_real,
                stub,
                assumptions: vec![
                    "the model is written from the documentation; existence of an EMPTY record, TTL extension, outcomes inside a deadline window and the durable effects of an explicit sync() or of a failed request are adopted from observation (three-valued), so creation-policy and TTL-policy bugs are out of scope".into(),
                    "a finalize_session that fails without an injected fault emits no cookie, so C11 is vacuous for it: counted as observation_finalize_failed_without_fault, not reported".into(),
                ],
                fault_counters: vec!["fault_store_error".into(), "fault_request_crashed".into(), "fault_request_abandoned".into(), "fault_clock_jump_back".into(), "fault_stale_none_answer".into(), "fault_sqlite_statement_failed".into()],
                expected_probes: vec!["join_two_loads_in_flight".into(), "join_loads_disagreed".into(), "server_remove_of_present_key".into(), "stale_cookie_replayed".into(), "state_after_cycle_checked".into(), "state_after_invalidate_checked".into(), "rejected_missing_state".into(), "allowed_missing_state".into(), "loaded_after_expiry".into(), "durable_state_cross_checked".into()],
            }
        }
    }

    fn generate(rng: &mut Rng, _tier: Tier, p: &str) -> Script {
        let c12 = p == "C12";
        let arm = match rng.below(10) {
            0..=4 => "strict",
            5..=7 => "expiry",
            _ => "fault",
        };
        let ttl_ms: u64 = match arm {
            "expiry" => *rng.pick(&[1_000, 2_000, 10_000, 60_000]),
            _ => *rng.pick(&[3_600_000, 86_400_000, 60_000_000]),
        };
        let crypto = if c12 {
            match rng.below(5) {
                0 => Crypto::None,
                1 | 2 => Crypto::Sign,
                _ => Crypto::Encrypt,
            }
        } else {
            Crypto::Encrypt
        };
        let cfg = Cfg {
            never_skip: rng.chance(2, 3),
            reject_missing: rng.chance(1, 2),
            extend_on_loads: rng.chance(1, 2),
            threshold_milli: *rng.pick(&[None, Some(0), Some(500), Some(800), Some(1000)]),
            ttl_ms,
            cookie_name: if c12 { rng.pick(&["id", "sid", "__Host-s", "a.b", "id", "sid", "app:session", "s id", "s@x"]).to_string() } else { "id".into() },
            domain: if rng.chance(1, if c12 { 2 } else { 4 }) { Some(rng.pick(&["example.com", "a.example.org"]).to_string()) } else { None },
            path: if c12 || rng.chance(1, 4) { rng.pick(&[None, Some("/"), Some("/app")]).map(|s| s.to_string()) } else { Some("/".into()) },
            secure: if c12 { rng.chance(1, 2) } else { true },
            http_only: if c12 { rng.chance(1, 2) } else { true },
            same_site: if c12 { rng.below(4) as u8 } else { 2 },
            persistent: rng.chance(1, 2),
            crypto,
            rule_names_session_cookie: if c12 { rng.chance(3, 4) } else { true },
            with_fallback_key: c12 && rng.chance(1, 4),
            percent_encode: !c12 || rng.chance(3, 4),
            tick_ns: *rng.pick(&[0, 1, 1_000, 1_000_000]),
            cookie_serde_omit: None,
            sqlite: false,
        };
        let mut cfg = cfg;
        if c12 && rng.chance(1, 3) {
            let mask = (rng.below(127) + 1) as u8;
            // documented defaults of SessionCookieConfig
            if mask & 1 != 0 {
                cfg.cookie_name = "id".into();
            }
            if mask & 2 != 0 {
                cfg.domain = None;
            }
            if mask & 4 != 0 {
                cfg.path = Some("/".into());
            }
            if mask & 8 != 0 {
                cfg.secure = true;
            }
            if mask & 16 != 0 {
                cfg.http_only = true;
            }
            if mask & 32 != 0 {
                cfg.same_site = 2;
            }
            if mask & 64 != 0 {
                cfg.persistent = true;
            }
            cfg.cookie_serde_omit = Some(mask);
        }
        let n = rng.usize(if c12 { 1 } else { 2 }, 8);
        let mut reqs = Vec::new();
        for i in 0..n {
            let advance_ms: i64 = match arm {
                "expiry" => {
                    let t = ttl_ms as i64;
                    match rng.below(8) {
                        0 => 0,
                        1 => t - 1,
                        2 => t,
                        3 => t + 1,
                        4 => t / 2,
                        5 => -(rng.below(t as u64 / 2 + 1) as i64),
                        6 => 3 * t,
                        _ => rng.below(t as u64 + 1) as i64,
                    }
                }
                _ => rng.below(2_000) as i64,
            };
            let present = if i == 0 {
                if rng.chance(1, 12) { Present::Garbage } else { Present::None }
            } else {
                match rng.below(12) {
                    0 => Present::None,
                    1 => Present::Garbage,
                    2 | 3 => Present::Older(rng.below(3) as u8),
                    _ => Present::Latest,
                }
            };
            let nops = rng.usize(0, 10);
            let mut ops: Vec<Op> = (0..nops).map(|_| gen_op(rng, c12)).collect();
            if arm == "expiry" && !ops.is_empty() && rng.chance(1, 3) {
                // the handler takes a while: the clock crosses (or approaches) a deadline mid-request
                let t = ttl_ms as u32;
                let w = *rng.pick(&[1, t / 2, t.saturating_sub(1), t, t + 1]);
                let at = rng.usize(0, ops.len());
                ops.insert(at, Op::Wait(w));
            }
            let fault = if arm == "fault" && rng.chance(1, 3) { Some(if rng.chance(1, 2) { StoreFault::Error(rng.below(4) as u8) } else { StoreFault::Crash(rng.below(4) as u8) }) } else { None };
            let abandon = arm == "fault" && rng.chance(1, 10);
            reqs.push(Req { advance_ms, present, ops, fault, abandon, other_cookies: 0 });
        }
        let crypto_switch = if c12 && n >= 2 && rng.chance(1, 3) { Some((rng.usize(1, n - 1), rng.pick(&[Crypto::Sign, Crypto::Encrypt, Crypto::Sign, Crypto::None]).clone())) } else { None };
        // last draw of the generator (so that the rest of the script is the same function of the seed
        // as before this arm existed): 1 run in 16 keeps its records in SQLite. VERIF_SESSIM_BACKEND
        // = sqlite | memory forces one backend (used for soak runs of the slower arm).
        let mut cfg = cfg;
        cfg.sqlite = match std::env::var("VERIF_SESSIM_BACKEND").as_deref() {
            Ok("sqlite") => true,
            Ok("memory") => false,
            _ => rng.chance(1, 16),
        };
        // Later draws (the part of the script above is the same function of the seed as before):
        // one run in four has a request that issues 2-3 server-side reads CONCURRENTLY on its one
        // session (`Op::Join`), mostly as its first operations, i.e. while the state is not loaded.
        let mut reqs = reqs;
        if reqs.len() >= 2 && rng.chance(1, 4) {
            let ri = rng.usize(1, reqs.len() - 1);
            let nreads = rng.usize(2, 3);
            let reads: Vec<JRead> = (0..nreads)
                .map(|_| match rng.below(5) {
                    0 => JRead::ForceLoad,
                    1 => JRead::IsEmpty,
                    _ => JRead::SGet(rng.below(3) as u8),
                })
                .collect();
            let delays: Vec<u8> = (0..nreads).map(|_| rng.below(4) as u8).collect();
            let order = rng.bytes(8);
            let t = ttl_ms.min(u32::MAX as u64 / 2) as u32;
            let step_ms: Vec<u32> = match arm {
                "expiry" => (0..rng.usize(1, 4)).map(|_| *rng.pick(&[0, 0, 1, t / 2, t.saturating_sub(1), t, t + 1])).collect(),
                _ => (0..rng.usize(1, 3)).map(|_| *rng.pick(&[0, 0, 1, 7])).collect(),
            };
            let stale_none = if arm == "fault" && rng.chance(1, 2) { Some(rng.below(nreads as u64) as u8) } else { None };
            let at = if rng.chance(2, 3) { 0 } else { rng.usize(0, reqs[ri].ops.len()) };
            reqs[ri].ops.insert(at, Op::Join(JoinOp { reads, delays, order, step_ms, stale_none }));
            if rng.chance(1, 2) {
                // make sure a cookie is presented, so that there is something to load
                reqs[ri].present = Present::Latest;
            }
        }
        if cfg.sqlite && arm == "fault" {
            for r in reqs.iter_mut() {
                if rng.chance(1, 3) {
                    r.fault = Some(StoreFault::Sql(rng.below(4) as u8, rng.below(3) as u8));
                }
            }
        }
        for r in reqs.iter_mut() {
            if rng.chance(1, if c12 { 10 } else { 25 }) {
                r.present = Present::Forged(rng.chance(1, 2));
            }
        }
        let cookie_switch = if c12 && reqs.len() >= 2 && rng.chance(1, 4) {
            Some((rng.usize(1, reqs.len() - 1), rng.chance(1, 2), rng.chance(1, 2), rng.below(4) as u8, rng.chance(1, 2)))
        } else {
            None
        };
        // later draw: other cookies travelling with the session cookie
        for r in reqs.iter_mut() {
            if rng.chance(1, 6) {
                r.other_cookies = rng.usize(1, 6) as u8;
            }
        }
        // last draw: one C11 run in twelve is an OVERLAP scenario — two requests presenting the same
        // cookie in flight at once, interleaved at store calls (in-memory store, a processor that lets
        // the cookie out)
        if !c12 && rng.chance(1, 12) {
            let mut cfg = cfg;
            cfg.sqlite = false;
            cfg.crypto = Crypto::Encrypt;
            cfg.rule_names_session_cookie = true;
            cfg.cookie_serde_omit = None;
            if !cfg.cookie_name.bytes().all(|b| b.is_ascii_alphanumeric() || b == b'_' || b == b'-') {
                cfg.cookie_name = "id".into();
            }
            let gen_ops = |rng: &mut Rng| -> Vec<Op> {
                (0..rng.usize(1, 4))
                    .map(|_| match rng.below(12) {
                        0 | 1 => Op::SGet(rng.below(2) as u8),
                        2 | 3 => Op::SInsert(rng.below(2) as u8),
                        4 => Op::SRemove(0),
                        5 => Op::ForceLoad,
                        6 => Op::CInsert(rng.below(2) as u8),
                        7 => Op::Delete,
                        8 | 9 => Op::CycleId,
                        10 => Op::Invalidate,
                        _ => Op::Sync,
                    })
                    .collect()
            };
            let mut a = gen_ops(rng);
            let b = gen_ops(rng);
            if rng.chance(1, 2) {
                a.push(Op::Invalidate);
            }
            let order = rng.bytes(8);
            return Script { arm: "overlap".into(), cfg, reqs: Vec::new(), crypto_switch: None, cookie_switch: None, overlap: Some(Overlap { a, b, order }), extreme_ttl: None };
        }
        if c12 && rng.chance(1, 150) {
            let mut cfg = cfg;
            cfg.sqlite = false;
            cfg.crypto = Crypto::Encrypt;
            cfg.rule_names_session_cookie = true;
            cfg.cookie_serde_omit = None;
            cfg.persistent = true;
            if !cfg.cookie_name.bytes().all(|b| b.is_ascii_alphanumeric() || b == b'_' || b == b'-') {
                cfg.cookie_name = "id".into();
            }
            return Script { arm: "max-age".into(), cfg, reqs: Vec::new(), crypto_switch: None, cookie_switch: None, overlap: None, extreme_ttl: Some(rng.below(EXTREME_TTLS.len() as u64) as u8) };
        }
        Script { arm: arm.to_string(), cfg, reqs, crypto_switch, cookie_switch, overlap: None, extreme_ttl: None }
    }

    fn run(script: &Script, tape: &mut Tape, keep_log: bool) -> RunOut {
        execute(script, tape, keep_log)
    }

    fn shrink(s: &Script) -> Vec<Script> {
        let mut c = Vec::new();
        if let Some(ov) = &s.overlap {
            for i in 0..ov.a.len() {
                let mut t = s.clone();
                t.overlap.as_mut().unwrap().a.remove(i);
                c.push(t);
            }
            for i in 0..ov.b.len() {
                let mut t = s.clone();
                t.overlap.as_mut().unwrap().b.remove(i);
                c.push(t);
            }
            for i in 0..ov.order.len() {
                if ov.order[i] != 0 {
                    let mut t = s.clone();
                    t.overlap.as_mut().unwrap().order[i] = 0;
                    c.push(t);
                }
            }
            return c;
        }
        for i in 0..s.reqs.len() {
            let mut t = s.clone();
            t.reqs.remove(i);
            c.push(t);
        }
        for i in 0..s.reqs.len() {
            for j in 0..s.reqs[i].ops.len() {
                let mut t = s.clone();
                t.reqs[i].ops.remove(j);
                c.push(t);
            }
        }
        for i in 0..s.reqs.len() {
            let r = &s.reqs[i];
            if r.fault.is_some() {
                let mut t = s.clone();
                t.reqs[i].fault = None;
                c.push(t);
            }
            if r.abandon {
                let mut t = s.clone();
                t.reqs[i].abandon = false;
                c.push(t);
            }
            if r.other_cookies != 0 {
                let mut t = s.clone();
                t.reqs[i].other_cookies = 0;
                c.push(t);
            }
            if r.advance_ms != 0 {
                let mut t = s.clone();
                t.reqs[i].advance_ms = 0;
                c.push(t);
            }
            if matches!(r.present, Present::Older(_) | Present::Garbage | Present::Forged(_)) {
                let mut t = s.clone();
                t.reqs[i].present = Present::Latest;
                c.push(t);
            }
            for j in 0..r.ops.len() {
                if let Op::Join(jo) = &r.ops[j] {
                    // the same reads one after the other; one read fewer; no delays / steps / stale answer
                    let mut t = s.clone();
                    let seq: Vec<Op> = jo.reads.iter().map(|x| match x { JRead::SGet(k) => Op::SGet(*k), JRead::IsEmpty => Op::SIsEmpty, JRead::ForceLoad => Op::ForceLoad }).collect();
                    t.reqs[i].ops.splice(j..=j, seq);
                    c.push(t);
                    if jo.reads.len() > 1 {
                        for k in 0..jo.reads.len() {
                            let mut t = s.clone();
                            if let Op::Join(x) = &mut t.reqs[i].ops[j] {
                                x.reads.remove(k);
                            }
                            c.push(t);
                        }
                    }
                    if jo.stale_none.is_some() {
                        let mut t = s.clone();
                        if let Op::Join(x) = &mut t.reqs[i].ops[j] {
                            x.stale_none = None;
                        }
                        c.push(t);
                    }
                    if jo.step_ms.iter().any(|m| *m != 0) {
                        let mut t = s.clone();
                        if let Op::Join(x) = &mut t.reqs[i].ops[j] {
                            x.step_ms = vec![0];
                        }
                        c.push(t);
                    }
                    if jo.delays.iter().any(|m| *m != 0) {
                        let mut t = s.clone();
                        if let Op::Join(x) = &mut t.reqs[i].ops[j] {
                            x.delays = vec![0; x.delays.len()];
                        }
                        c.push(t);
                    }
                    if !jo.order.is_empty() {
                        let mut t = s.clone();
                        if let Op::Join(x) = &mut t.reqs[i].ops[j] {
                            x.order.clear();
                        }
                        c.push(t);
                    }
                }
                if r.ops[j] == Op::Observe {
                    for k in 0..3u8 {
                        let mut t = s.clone();
                        t.reqs[i].ops[j] = Op::SGet(k);
                        c.push(t);
                    }
                    for k in 0..2u8 {
                        let mut t = s.clone();
                        t.reqs[i].ops[j] = Op::CGet(k);
                        c.push(t);
                    }
                }
            }
        }
        if s.crypto_switch.is_some() {
            let mut t = s.clone();
            t.crypto_switch = None;
            c.push(t);
        }
        if s.cookie_switch.is_some() {
            let mut t = s.clone();
            t.cookie_switch = None;
            c.push(t);
        }
        if s.cfg.cookie_serde_omit.is_some() {
            let mut t = s.clone();
            t.cfg.cookie_serde_omit = None;
            c.push(t);
        }
        if s.arm != "strict" {
            let mut t = s.clone();
            t.arm = "strict".into();
            t.cfg.ttl_ms = 86_400_000;
            for r in &mut t.reqs {
                r.fault = None;
                r.abandon = false;
                r.advance_ms = r.advance_ms.clamp(0, 1000);
            }
            c.push(t);
        }
        if s.cfg.tick_ns != 0 {
            let mut t = s.clone();
            t.cfg.tick_ns = 0;
            c.push(t);
        }
        if s.cfg.reject_missing {
            let mut t = s.clone();
            t.cfg.reject_missing = false;
            c.push(t);
        }
        if !s.cfg.never_skip {
            let mut t = s.clone();
            t.cfg.never_skip = true;
            c.push(t);
        }
        if s.cfg.threshold_milli.is_some() {
            let mut t = s.clone();
            t.cfg.threshold_milli = None;
            c.push(t);
        }
        c
    }
}


// ---------------------------------------------------------------------------------------------
// overlap arm: two requests of ONE session in flight at once

/// Store wrapper of the overlap arm: every call first gives the CPU back once, so that the driver
/// decides, call by call, which of the two requests moves next.
struct TurnStore {
    inner: Arc<InMemorySessionStore>,
    calls: Arc<Mutex<Vec<String>>>,
    /// which request the driver is polling right now (b'A' / b'B' / b'0')
    who: Arc<std::sync::atomic::AtomicU8>,
    /// calls in the order they EXECUTED: (who, operation, id, answered-with-a-record / succeeded)
    done: Arc<Mutex<Vec<(u8, &'static str, String, bool)>>>,
}

impl TurnStore {
    async fn turn(&self, what: String) {
        self.calls.lock().unwrap().push(what);
        YieldOnce(false).await;
    }
    fn note(&self, op: &'static str, id: &SessionId, ok: bool) {
        let who = self.who.load(std::sync::atomic::Ordering::SeqCst);
        self.done.lock().unwrap().push((who, op, id.inner().to_string(), ok));
    }
}

#[async_trait::async_trait]
impl SessionStorageBackend for TurnStore {
    async fn create(&self, id: &SessionId, record: SessionRecordRef<'_>) -> Result<(), CreateError> {
        self.turn(format!("create {}", short(&id.inner().to_string()))).await;
        let r = self.inner.create(id, record).await;
        self.note("create", id, r.is_ok());
        r
    }
    async fn update(&self, id: &SessionId, record: SessionRecordRef<'_>) -> Result<(), UpdateError> {
        self.turn(format!("update {}", short(&id.inner().to_string()))).await;
        let r = self.inner.update(id, record).await;
        self.note("update", id, r.is_ok());
        r
    }
    async fn update_ttl(&self, id: &SessionId, ttl: Duration) -> Result<(), UpdateTtlError> {
        self.turn(format!("update_ttl {}", short(&id.inner().to_string()))).await;
        let r = self.inner.update_ttl(id, ttl).await;
        self.note("update_ttl", id, r.is_ok());
        r
    }
    async fn load(&self, id: &SessionId) -> Result<Option<SessionRecord>, LoadError> {
        self.turn(format!("load {}", short(&id.inner().to_string()))).await;
        let r = self.inner.load(id).await;
        self.note("load", id, matches!(r, Ok(Some(_))));
        r
    }
    async fn delete(&self, id: &SessionId) -> Result<(), DeleteError> {
        self.turn(format!("delete {}", short(&id.inner().to_string()))).await;
        let r = self.inner.delete(id).await;
        self.note("delete", id, r.is_ok());
        r
    }
    async fn change_id(&self, old: &SessionId, new: &SessionId) -> Result<(), ChangeIdError> {
        self.turn(format!("change_id {} -> {}", short(&old.inner().to_string()), short(&new.inner().to_string()))).await;
        let r = self.inner.change_id(old, new).await;
        self.note("change_id", old, r.is_ok());
        r
    }
    async fn delete_expired(&self, b: Option<NonZeroUsize>) -> Result<usize, DeleteExpiredError> {
        self.inner.delete_expired(b).await
    }
}

impl std::fmt::Debug for TurnStore {
    fn fmt(&self, f: &mut std::fmt::Formatter<'_>) -> std::fmt::Result {
        f.write_str("TurnStore")
    }
}

#[derive(Default)]
struct OvReqOut {
    invalidated: bool,
    cycled: bool,
    finalize: Option<Result<(), String>>,
    reads: Vec<(String, Option<Value>)>,
    log: Vec<String>,
}

fn ov_sig(ops: &[Op]) -> String {
    World::sig_ops(ops)
}

#[allow(clippy::too_many_arguments, clippy::await_holding_refcell_ref)]
async fn ov_request<'a>(
    name: &'static str,
    ops: Vec<Op>,
    incoming: IncomingSession,
    store: &'a SessionStore,
    config: &'a SessionConfig,
    processor: &'a Processor,
    next_val: &'a std::cell::Cell<u64>,
    written: &'a std::cell::RefCell<BTreeMap<String, BTreeSet<String>>>,
    res: &'a std::cell::RefCell<OvReqOut>,
    rc: &'a std::cell::RefCell<ResponseCookies>,
) {
            let mut s = Session::new(store, config, Some(incoming));
            for op in &ops {
                match op {
                    Op::SGet(k) => {
                        let key = SKEYS[*k as usize % 3];
                        if let Ok(v) = s.get_raw(key).await.map(|v| v.cloned()) {
                            res.borrow_mut().log.push(format!("{name} sget {key} -> {v:?}"));
                            res.borrow_mut().reads.push((key.to_string(), v));
                        }
                    }
                    Op::SInsert(k) => {
                        let key = SKEYS[*k as usize % 3];
                        next_val.set(next_val.get() + 1);
                        let val = value_for(key, next_val.get());
                        written.borrow_mut().entry(key.to_string()).or_default().insert(val.to_string());
                        let _ = s.insert_raw(key, val).await;
                    }
                    Op::SRemove(k) => {
                        let _ = s.remove_raw(SKEYS[*k as usize % 3]).await;
                    }
                    Op::ForceLoad => {
                        let _ = s.force_load().await;
                    }
                    Op::CInsert(k) => {
                        next_val.set(next_val.get() + 1);
                        let _ = s.client_mut().insert_raw(CKEYS[*k as usize % 2], value_for("x", next_val.get()));
                    }
                    Op::Delete => s.delete(),
                    Op::CycleId => {
                        s.cycle_id();
                        res.borrow_mut().cycled = true;
                    }
                    Op::Invalidate => {
                        s.invalidate();
                        res.borrow_mut().invalidated = true;
                    }
                    Op::Sync => {
                        let _ = s.sync().await;
                    }
                    _ => {}
                }
            }
            if s.is_invalidated() {
                res.borrow_mut().invalidated = true;
            }
            let mut cookies = rc.borrow_mut();
            let r = finalize_session(Response::ok(), &mut cookies, processor, s).await;
            res.borrow_mut().finalize = Some(r.map(|_| ()).map_err(|e| format!("{e:?}")));
}

fn execute_overlap(script: &Script, ov: &Overlap, keep_log: bool) -> RunOut {
    let cfg = &script.cfg;
    seams::set_entropy(Some(0xC11));
    seams::set_clock_ns(seams::EPOCH_S * 1_000_000_000, cfg.tick_ns);
    seams::reset_clock_reads();
    let mut out = RunOut::new(EventLog::new(keep_log));
    out.count("overlap_runs", 1);
    let config = build_config(cfg);
    let processor = build_processor(cfg, &cfg.crypto, None);
    let mem = Arc::new(InMemorySessionStore::new());
    let calls = Arc::new(Mutex::new(Vec::new()));
    let who = Arc::new(std::sync::atomic::AtomicU8::new(b'0'));
    let done = Arc::new(Mutex::new(Vec::new()));
    let store = SessionStore::new(TurnStore { inner: mem.clone(), calls: calls.clone(), who: who.clone(), done: done.clone() });
    let shape = format!("overlap a=[{}] b=[{}]", ov_sig(&ov.a), ov_sig(&ov.b));
    out.log.ev(format_args!("arm=overlap cfg={}", serde_json::to_string(cfg).unwrap_or_default()));
    let mut written: BTreeMap<String, BTreeSet<String>> = BTreeMap::new();

    // ---- request 0 (alone): a new session with server-side and client-side state
    let v0 = value_for("a", 1);
    let c0 = value_for("x", 2);
    written.entry("a".into()).or_default().insert(v0.to_string());
    let mut rc0 = ResponseCookies::new();
    let r0 = block_on(async {
        let mut s = Session::new(&store, &config, None);
        let _ = s.insert_raw("a", v0.clone()).await;
        let _ = s.client_mut().insert_raw("x", c0.clone());
        finalize_session(Response::ok(), &mut rc0, &processor, s).await.map(|_| ()).map_err(|e| format!("{e:?}"))
    });
    let header = match r0 {
        Some(Ok(())) => pavex::cookie::inject_response_cookies(Response::ok(), rc0, &processor).ok().and_then(|resp| {
            resp.headers().get_all(http::header::SET_COOKIE).iter().filter_map(|v| v.to_str().ok()).map(parse_set_cookie).find(|c| !c.removal).map(|c| format!("{}={}", c.name, c.raw_value))
        }),
        _ => None,
    };
    let Some(header) = header else {
        // the configuration does not let a session cookie out (no crypto rule…): nothing to overlap
        out.count("overlap_setup_refused", 1);
        return out;
    };
    let mut head = RequestHead { method: http::Method::GET, target: "/".parse().unwrap(), version: http::Version::HTTP_11, headers: http::HeaderMap::new() };
    head.headers.insert(http::header::COOKIE, http::HeaderValue::from_str(&header).unwrap());
    let cookies: RequestCookies<'_> = pavex::cookie::extract_request_cookies(&head, &processor).unwrap_or_else(|_| RequestCookies::new());
    let (Some(inc_a), Some(inc_b)) = (IncomingSession::extract(&cookies, &config.cookie), IncomingSession::extract(&cookies, &config.cookie)) else {
        out.violations.push(viol("C11", "cookie-roundtrip", format!("cookie not accepted back {shape}"), "the session cookie of the set-up request was not recognised when presented".into()));
        return out;
    };
    let old_id: SessionId = match cookies.get(&cfg.cookie_name).and_then(|c| serde_json::from_str::<Wire>(c.value()).ok()).and_then(|w| serde_json::from_value(Value::String(w.id)).ok()) {
        Some(id) => id,
        None => {
            out.count("overlap_setup_refused", 1);
            return out;
        }
    };
    calls.lock().unwrap().clear();
    done.lock().unwrap().clear();

    // ---- requests A and B, in flight at once
    let next_val = std::cell::Cell::new(10u64);
    let written = std::cell::RefCell::new(written);
    let (res_a, res_b) = (std::cell::RefCell::new(OvReqOut::default()), std::cell::RefCell::new(OvReqOut::default()));
    let (rc_a, rc_b) = (std::cell::RefCell::new(ResponseCookies::new()), std::cell::RefCell::new(ResponseCookies::new()));
    crate::quiet_panics();
    let panicked = std::panic::catch_unwind(std::panic::AssertUnwindSafe(|| {
        let mut fa = std::pin::pin!(ov_request("A", ov.a.clone(), inc_a, &store, &config, &processor, &next_val, &written, &res_a, &rc_a));
        let mut fb = std::pin::pin!(ov_request("B", ov.b.clone(), inc_b, &store, &config, &processor, &next_val, &written, &res_b, &rc_b));
        let mut cx = Context::from_waker(std::task::Waker::noop());
        let (mut done_a, mut done_b) = (false, false);
        let mut step = 0usize;
        let mut switches = 0u64;
        let mut last = 2u8;
        while !(done_a && done_b) && step < 400 {
            let bit = ov.order.get(step / 8).map(|b| (b >> (step % 8)) & 1).unwrap_or((step % 2) as u8);
            step += 1;
            let pick_b = if done_a { true } else if done_b { false } else { bit == 1 };
            if last != 2 && last != pick_b as u8 {
                switches += 1;
            }
            last = pick_b as u8;
            who.store(if pick_b { b'B' } else { b'A' }, std::sync::atomic::Ordering::SeqCst);
            if pick_b {
                if fb.as_mut().poll(&mut cx).is_ready() {
                    done_b = true;
                }
            } else if fa.as_mut().poll(&mut cx).is_ready() {
                done_a = true;
            }
        }
        (done_a && done_b, switches)
    }));
    let _ = crate::take_panics();
    for l in calls.lock().unwrap().iter() {
        out.log.ev(format_args!("store call: {l}"));
    }
    match panicked {
        Err(_) => {
            out.count("observation_panic_in_overlapping_requests", 1);
            return out;
        }
        Ok((false, _)) => {
            out.violations.push(viol("C11", "overlap-terminates", format!("requests did not finish {shape}"), "two overlapping requests of one session did not both complete within 400 scheduling steps".into()));
            return out;
        }
        Ok((true, switches)) => {
            if switches >= 2 {
                out.count("overlap_requests_really_interleaved", 1);
            }
        }
    }
    let (ra, rb) = (res_a.into_inner(), res_b.into_inner());
    for l in ra.log.iter().chain(rb.log.iter()) {
        out.log.ev(format_args!("{l}"));
    }
    out.log.ev(format_args!("A: invalidated={} cycled={} finalize={:?}; B: invalidated={} cycled={} finalize={:?}", ra.invalidated, ra.cycled, ra.finalize, rb.invalidated, rb.cycled, rb.finalize));
    // ---- oracle: only what holds for EVERY interleaving of the two requests
    // (a) every server-side value a request read was written for that key in this session
    let written = written.into_inner();
    for (who, r) in [("A", &ra), ("B", &rb)] {
        for (k, v) in &r.reads {
            if let Some(v) = v {
                if !written.get(k).map(|s| s.contains(&v.to_string())).unwrap_or(false) {
                    out.violations.push(viol("C11", "carry-over", format!("overlapping request read a value nobody wrote {shape}"), format!("request {who} read {k}={v}, which was never written for that key in this session")));
                }
            }
        }
    }
    // (b) after invalidate() the server record is gone and the old cookie yields no state; after
    //     cycle_id() the state is reachable only under the new id — also when another request of the
    //     same session was in flight: a request that had LOADED the record before it was deleted /
    //     renamed must not put state back under the old id. (A request whose load came after the
    //     deletion saw "no state", which is all the clause asks; what it then writes under the id it
    //     was given is `MissingServerState::Allow`'s documented business — not judged here.)
    let done = done.lock().unwrap().clone();
    let old = old_id.inner().to_string();
    for (x, y) in [(b'A', b'B'), (b'B', b'A')] {
        out.log.ev(format_args!("executed: {}", done.iter().map(|(w, op, id, ok)| format!("{}:{op}({})={ok}", *w as char, short(id))).collect::<Vec<_>>().join(" ")));
        let (rx, ry) = if x == b'A' { (&ra, &rb) } else { (&rb, &ra) };
        if rx.finalize != Some(Ok(())) || !(rx.invalidated || rx.cycled) {
            continue;
        }
        // the instant X's delete / rename of the old id took effect
        let Some(t_gone) = done.iter().position(|(w, op, id, ok)| *w == x && *ok && id == &old && (*op == "delete" || *op == "change_id")) else { continue };
        let y_loaded_before = done[..t_gone].iter().any(|(w, op, id, ok)| *w == y && *op == "load" && id == &old && *ok);
        out.count(if rx.invalidated { "overlap_invalidate_completed" } else { "overlap_cycle_completed" }, 1);
        if !y_loaded_before {
            continue;
        }
        out.count("overlap_other_request_held_the_state_when_it_was_invalidated_or_renamed", 1);
        let old_rec = block_on(async { mem.load(&old_id).await }).and_then(|r| r.ok()).flatten().filter(|r| !r.state.is_empty());
        if let Some(rec) = old_rec {
            let (inv, sig) = if rx.invalidated { ("invalidate", "record of an invalidated session is back (overlapping requests)") } else { ("cycle-id", "old id has state again (overlapping requests)") };
            out.violations.push(viol("C11", inv, format!("{sig} {shape}"), format!("request {} {} and completed; request {} had loaded the record before that and was still in flight (finalize: {:?}); afterwards the store serves {:?} under the OLD id: the old cookie yields state again", x as char, if rx.invalidated { "invalidated the session" } else { "cycled the id" }, y as char, ry.finalize, to_map(&rec.state))));
        }
    }
    out
}


/// C12, `Max-Age` of a persistent session cookie under TTLs at the edge of what a `Duration` holds
/// (`Duration::MAX` as a "never expires" sentinel): seeded enumeration of the configuration, one
/// request of a returning client that does not touch the server-side state.
fn execute_extreme_ttl(script: &Script, i: u8, keep_log: bool) -> RunOut {
    let cfg = &script.cfg;
    seams::set_entropy(Some(0xC12));
    seams::set_clock_ns(seams::EPOCH_S * 1_000_000_000, cfg.tick_ns);
    seams::reset_clock_reads();
    let mut out = RunOut::new(EventLog::new(keep_log));
    out.count("max_age_extreme_ttl_runs", 1);
    let ttl = EXTREME_TTLS[i as usize % EXTREME_TTLS.len()];
    let mut config = build_config(cfg);
    config.state.ttl = ttl;
    let processor = build_processor(cfg, &cfg.crypto, None);
    let store = SessionStore::new(InMemorySessionStore::new());
    let id = SessionId::random();
    let mut rc = ResponseCookies::new();
    crate::quiet_panics();
    let r = std::panic::catch_unwind(std::panic::AssertUnwindSafe(|| {
        block_on(async {
            // the record is there already, written under an ordinary TTL (the store is never asked to deal with the extreme one)
            let _ = store.create(&id, SessionRecordRef { state: Cow::Owned(HashMap::new()), ttl: Duration::from_secs(1000) }).await;
            let mut s = Session::new(&store, &config, Some(IncomingSession::from_parts(id, HashMap::new())));
            let _ = s.client_mut().insert_raw("x", value_for("x", 1));
            finalize_session(Response::ok(), &mut rc, &processor, s).await.map(|_| ()).map_err(|e| format!("{e:?}"))
        })
    }));
    let _ = crate::take_panics();
    let Ok(Some(Ok(()))) = r else {
        out.count("max_age_run_without_a_cookie", 1);
        return out;
    };
    let Some(c) = rc.iter().find(|c| c.name() == cfg.cookie_name) else {
        out.count("max_age_run_without_a_cookie", 1);
        return out;
    };
    let want: i64 = i64::try_from(ttl.as_secs()).unwrap_or(i64::MAX);
    out.log.ev(format_args!("ttl={ttl:?} max_age={:?} want={want}", c.max_age().map(|m| m.as_secs())));
    match c.max_age() {
        None => out.violations.push(viol("C12", "cookie-attributes", "attrs Max-Age missing (extreme ttl)".into(), format!("a persistent session cookie with a configured TTL of {ttl:?} carries no Max-Age"))),
        Some(m) if m.as_secs() != want => out.violations.push(viol("C12", "cookie-attributes", "attrs Max-Age (extreme ttl)".into(), format!("configured TTL {ttl:?}: the persistent session cookie carries Max-Age={} s, the configured TTL (clamped to what Max-Age can express) is {want} s", m.as_secs()))),
        Some(_) => out.count("max_age_matches_extreme_ttl", 1),
    }
    out
}
