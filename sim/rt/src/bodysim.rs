//! C14 — a buffered request body never exceeds the configured size limit.
//!
//! The "network" of this simulator is the body/socket argument of the extractor.
//!
//! * mode B (`Frames`): the real `BufferedBody::_extract_with_limit` (through the cfg-gated
//!   `verif_extract_with_limit` seam) is fed a scripted `http_body::Body`: seeded frame sizes
//!   including empty data frames and trailer frames, `Pending` returns that are woken later, a
//!   lying `size_hint`, an error frame at a seeded position, together with any `Content-Length`
//!   header.
//! * mode A (`Wire`): a real hyper HTTP/1 server connection over a simulated in-memory socket;
//!   the service calls the public `BufferedBody::extract(&RequestHead, RawIncomingBody,
//!   BodySizeLimit)`; the simulated client writes the request in seeded fragments with seeded
//!   delays and may half-close, stall or reset mid-body. Client and server are two simulated
//!   threads whose interleaving the choice tape decides.
use std::collections::VecDeque;
use std::future::Future;
use std::pin::Pin;
use std::task::{Context, Poll};

use bytes::Bytes;
use http_body::{Body, Frame, SizeHint};
use pavex::request::RequestHead;
use pavex::request::body::errors::ExtractBufferedBodyError;
use pavex::request::body::{BufferedBody, JsonBody, UrlEncodedBody};
use pavex::unit::ByteUnit;
use serde::{Deserialize, Serialize};
use simcore::{EventLog, Rng, RunOut, Sim, Tape, Tier, Violation, driver::SimMeta};

pub struct BodySim;

#[derive(Serialize, Deserialize, Clone, Debug, PartialEq)]
pub enum Cl {
    Absent,
    Truthful,
    Value(u64),
    Garbage(String),
}

#[derive(Serialize, Deserialize, Clone, Debug, PartialEq)]
pub enum FrameOp {
    /// A data frame carrying the next `n` bytes of the body (may be 0).
    Data(usize),
    /// A trailers frame.
    Trailers,
    /// `poll_frame` returns `Pending` once here; the waker is fired by the simulator later.
    Pending,
    /// The transport fails here.
    Error,
}

#[derive(Serialize, Deserialize, Clone, Debug, PartialEq)]
pub enum Hint {
    Default,
    Truthful,
    Lying(u64),
}

#[derive(Serialize, Deserialize, Clone, Debug, PartialEq)]
pub enum Payload {
    Random,
    Json,
    Form,
}

#[derive(Serialize, Deserialize, Clone, Debug, PartialEq)]
pub enum WireFault {
    None,
    /// Client half-closes its write side after this many request bytes.
    HalfCloseAfter(usize),
    /// Client stops writing after this many bytes and never resumes.
    StallAfter(usize),
    /// Client drops the connection after this many bytes.
    ResetAfter(usize),
}

#[derive(Serialize, Deserialize, Clone, Debug, PartialEq)]
pub enum Framing {
    /// `Content-Length` header as given by `cl` (absent ⇒ body must be empty for HTTP/1 requests;
    /// hyper treats it as length 0).
    Length,
    /// `Transfer-Encoding: chunked` with these chunk sizes (the tail goes into one last chunk);
    /// `cl` is ignored by hyper in that case but still sent when not `Absent`.
    Chunked(Vec<usize>),
    /// HTTP/2 with prior knowledge: HEADERS (with the `content-length` of `cl`, if any) followed by
    /// DATA frames of these sizes (the tail goes into one last frame, END_STREAM on the last one).
    /// The body is what the DATA frames carry; a `content-length` that disagrees makes the message
    /// malformed (RFC 9113 §8.1.1). Bodies stay below the default 65 535-byte flow-control window.
    H2(Vec<usize>),
}

#[derive(Serialize, Deserialize, Clone, Debug)]
pub struct Script {
    pub wire: bool,
    pub limit: u64,
    pub body_len: usize,
    pub body_seed: u64,
    pub payload: Payload,
    pub cl: Cl,
    // mode B
    pub frames: Vec<FrameOp>,
    pub hint: Hint,
    // mode A
    pub framing: Framing,
    pub fragments: Vec<(usize, u64)>,
    pub pipe_capacity: usize,
    pub fault: WireFault,
    pub limit_disabled: bool,
    /// mode B: a second extraction (other bytes, same framing) is in flight on the same thread and
    /// the tape interleaves the polls of the two
    #[serde(default)]
    pub dual: bool,
    /// mode A: the extractor is given `BodySizeLimit::default()` instead of an explicit limit; the
    /// documented default is 2 MB = 2 000 000 bytes, which is what `limit` holds then
    #[serde(default)]
    pub limit_default: bool,
    /// content class of the body (same length): 0 = as generated; 1 = starts with the UTF-8 byte
    /// order mark; 2 = UTF-16 BOM; 3 = leading blanks / CRLF; 4 = trailing blanks and NULs;
    /// 5 = all zero bytes; 6 = looks like the end of a chunked body (`0\r\n\r\n`) at both ends;
    /// 7 = gzip magic; 8 = all 0xFF
    #[serde(default)]
    pub content_class: u8,
    /// request method: 0 POST, 1 GET, 2 PUT, 3 DELETE, 4 PATCH, 5 HEAD — a body is legal with any of them
    #[serde(default)]
    pub method: u8,
    /// mode B: how long the transport stalls at the k-th `Pending` (milliseconds of simulated time,
    /// cyclic; empty = no time passes)
    #[serde(default)]
    pub stalls_ms: Vec<u32>,
}

pub fn method_of(script: &Script) -> http::Method {
    match script.method {
        1 => http::Method::GET,
        2 => http::Method::PUT,
        3 => http::Method::DELETE,
        4 => http::Method::PATCH,
        5 => http::Method::HEAD,
        _ => http::Method::POST,
    }
}

pub fn make_body(script: &Script) -> Vec<u8> {
    let mut v = make_body_plain(script);
    let n = v.len();
    let put = |v: &mut Vec<u8>, at: usize, bytes: &[u8]| {
        for (i, b) in bytes.iter().enumerate() {
            if at + i < v.len() {
                v[at + i] = *b;
            }
        }
    };
    match script.content_class {
        1 => put(&mut v, 0, &[0xEF, 0xBB, 0xBF]),
        2 => put(&mut v, 0, &[0xFE, 0xFF]),
        3 => put(&mut v, 0, b" \t\r\n \r\n"),
        4 => put(&mut v, n.saturating_sub(5), b" \r\n\0\0"),
        5 => v.iter_mut().for_each(|b| *b = 0),
        6 => {
            put(&mut v, 0, b"0\r\n\r\n");
            put(&mut v, n.saturating_sub(5), b"0\r\n\r\n");
        }
        7 => put(&mut v, 0, &[0x1F, 0x8B, 0x08, 0x00]),
        8 => v.iter_mut().for_each(|b| *b = 0xFF),
        _ => {}
    }
    v
}

fn make_body_plain(script: &Script) -> Vec<u8> {
    let n = script.body_len;
    match script.payload {
        Payload::Random => Rng::new(script.body_seed).bytes(n),
        Payload::Json => {
            // {"k":"xxxx"} padded to exactly n bytes when n >= 8, else random digits (valid JSON number)
            if n >= 8 {
                let mut v = Vec::with_capacity(n);
                v.extend_from_slice(b"{\"k\":\"");
                let mut r = Rng::new(script.body_seed);
                for _ in 0..n - 8 {
                    v.push(b'a' + r.below(26) as u8);
                }
                v.extend_from_slice(b"\"}");
                v
            } else {
                let mut r = Rng::new(script.body_seed);
                (0..n).map(|_| b'1' + r.below(9) as u8).collect()
            }
        }
        Payload::Form => {
            if n >= 2 {
                let mut v = Vec::with_capacity(n);
                v.extend_from_slice(b"a=");
                let mut r = Rng::new(script.body_seed);
                for _ in 0..n - 2 {
                    v.push(b'a' + r.below(26) as u8);
                }
                v
            } else {
                vec![b'a'; n]
            }
        }
    }
}

fn limit_usize(limit: u64) -> usize {
    limit.try_into().unwrap_or(usize::MAX)
}

pub fn cl_header(script: &Script, truthful_len: usize) -> Option<String> {
    match &script.cl {
        Cl::Absent => None,
        Cl::Truthful => Some(truthful_len.to_string()),
        Cl::Value(v) => Some(v.to_string()),
        Cl::Garbage(s) => Some(s.clone()),
    }
}

pub fn head_for(script: &Script, truthful_len: usize) -> RequestHead {
    let mut headers = http::HeaderMap::new();
    if let Some(v) = cl_header(script, truthful_len) {
        if let Ok(v) = http::HeaderValue::from_str(&v) {
            headers.insert(http::header::CONTENT_LENGTH, v);
        }
    }
    match script.payload {
        Payload::Json => {
            headers.insert(http::header::CONTENT_TYPE, http::HeaderValue::from_static("application/json"));
        }
        Payload::Form => {
            headers.insert(
                http::header::CONTENT_TYPE,
                http::HeaderValue::from_static("application/x-www-form-urlencoded"),
            );
        }
        Payload::Random => {}
    }
    RequestHead {
        method: method_of(script),
        target: "/".parse().unwrap(),
        version: http::Version::HTTP_11,
        headers,
    }
}

/// The scripted transport of mode B.
struct ScriptedBody {
    data: Bytes,
    pos: usize,
    ops: VecDeque<FrameOp>,
    hint: Hint,
    pending_waker: Option<std::task::Waker>,
    delivered: usize,
    errored: bool,
    ended: bool,
    polls: u64,
    stats: std::rc::Rc<std::cell::RefCell<BodyStats>>,
}

#[derive(Default, Debug)]
struct BodyStats {
    delivered: usize,
    errored: bool,
    ended: bool,
    pendings: u64,
    empty_frames: u64,
    trailer_frames: u64,
    polled_after_end: bool,
}

impl Body for ScriptedBody {
    type Data = Bytes;
    type Error = Box<dyn std::error::Error + Send + Sync>;

    fn poll_frame(mut self: Pin<&mut Self>, cx: &mut Context<'_>) -> Poll<Option<Result<Frame<Bytes>, Self::Error>>> {
        self.polls += 1;
        if self.ended || self.errored {
            self.stats.borrow_mut().polled_after_end = true;
            return Poll::Ready(None);
        }
        match self.ops.pop_front() {
            None => {
                self.ended = true;
                self.stats.borrow_mut().ended = true;
                Poll::Ready(None)
            }
            Some(FrameOp::Pending) => {
                self.pending_waker = Some(cx.waker().clone());
                self.stats.borrow_mut().pendings += 1;
                // The simulated transport "delivers" later: wake immediately, the executor decides
                // when to poll again.
                cx.waker().wake_by_ref();
                Poll::Pending
            }
            Some(FrameOp::Error) => {
                self.errored = true;
                self.stats.borrow_mut().errored = true;
                Poll::Ready(Some(Err("simulated transport error".into())))
            }
            Some(FrameOp::Trailers) => {
                self.stats.borrow_mut().trailer_frames += 1;
                let mut h = http::HeaderMap::new();
                h.insert("x-trailer", http::HeaderValue::from_static("1"));
                Poll::Ready(Some(Ok(Frame::trailers(h))))
            }
            Some(FrameOp::Data(n)) => {
                let end = (self.pos + n).min(self.data.len());
                let chunk = self.data.slice(self.pos..end);
                self.pos = end;
                self.delivered += chunk.len();
                let mut st = self.stats.borrow_mut();
                st.delivered = self.delivered;
                if chunk.is_empty() {
                    st.empty_frames += 1;
                }
                Poll::Ready(Some(Ok(Frame::data(chunk))))
            }
        }
    }

    fn size_hint(&self) -> SizeHint {
        match self.hint {
            Hint::Default => SizeHint::default(),
            Hint::Truthful => SizeHint::with_exact((self.data.len() - self.pos) as u64),
            Hint::Lying(v) => SizeHint::with_exact(v),
        }
    }
}

struct FlagWaker(std::sync::atomic::AtomicBool);
impl std::task::Wake for FlagWaker {
    fn wake(self: std::sync::Arc<Self>) {
        self.0.store(true, std::sync::atomic::Ordering::SeqCst);
    }
}

#[derive(Debug, Clone, PartialEq)]
pub enum Outcome {
    Ok(Vec<u8>),
    SizeLimit,
    Unexpected,
    /// The extraction never completed (transport stalled).
    NoResult,
}

pub fn classify(r: Result<BufferedBody, ExtractBufferedBodyError>) -> Outcome {
    match r {
        Ok(b) => Outcome::Ok(b.bytes.to_vec()),
        Err(ExtractBufferedBodyError::SizeLimitExceeded(_)) => Outcome::SizeLimit,
        Err(ExtractBufferedBodyError::UnexpectedBufferError(_)) => Outcome::Unexpected,
        Err(_) => Outcome::Unexpected,
    }
}

fn viol(invariant: &str, signature: String, detail: String) -> Violation {
    Violation {
        property: "C14".into(),
        invariant: invariant.into(),
        signature,
        detail,
    }
}

/// Check the layered extractors on a body that was accepted.
fn check_typed(script: &Script, head: &RequestHead, got: &[u8], expect: &[u8], out: &mut RunOut) {
    let Some(bb) = buffered(got) else { return };
    match script.payload {
        Payload::Json => {
            let r: Result<JsonBody<serde_json::Value>, _> = JsonBody::extract(head, &bb);
            // The reference reads the FIRST JSON value of the bytes the client sent. Whether bytes
            // after a complete value make the document malformed is a question for the typed
            // extractors' own contract (C15), not for C14: pavex's JsonBody does not look at them
            // (no `Deserializer::end()`), which is counted below, not reported.
            let strict: Result<serde_json::Value, _> = serde_json::from_slice(expect);
            let want: Result<serde_json::Value, _> = match serde_json::Deserializer::from_slice(expect).into_iter::<serde_json::Value>().next() {
                Some(r) => r,
                None => serde_json::from_slice(expect),
            };
            if strict.is_err() && want.is_ok() && r.is_ok() {
                out.count("observation_json_bytes_after_first_value_ignored", 1);
            }
            match (r, want) {
                (Ok(JsonBody(v)), Ok(w)) => {
                    out.count("json_extracted", 1);
                    if v != w {
                        out.violations.push(viol("json-identical", "json value differs".into(), format!("JsonBody returned {v} expected {w}")));
                    }
                }
                (Err(_), Err(_)) => {}
                (Ok(JsonBody(v)), Err(_)) => out.violations.push(viol("json-identical", "json accepted invalid".into(), format!("JsonBody returned {v} for bytes that are not JSON"))),
                (Err(e), Ok(_)) => out.violations.push(viol("json-identical", "json rejected valid".into(), format!("JsonBody failed on a valid document that fits: {e}"))),
            }
        }
        Payload::Form => {
            let r: Result<UrlEncodedBody<Vec<(String, String)>>, _> = UrlEncodedBody::extract(head, &bb);
            let want: Vec<(String, String)> = form_pairs(expect);
            match r {
                Ok(UrlEncodedBody(v)) => {
                    out.count("form_extracted", 1);
                    if v != want {
                        out.violations.push(viol("form-identical", "form value differs".into(), format!("UrlEncodedBody returned {v:?} expected {want:?}")));
                    }
                }
                Err(e) => out.violations.push(viol("form-identical", "form rejected valid".into(), format!("UrlEncodedBody failed on a valid form that fits: {e}"))),
            }
        }
        Payload::Random => {}
    }
}

fn form_pairs(b: &[u8]) -> Vec<(String, String)> {
    // bodies are generated as `a=<letters>` (or a run of `a`), no escapes
    let s = String::from_utf8_lossy(b).to_string();
    if s.is_empty() {
        return vec![];
    }
    match s.split_once('=') {
        Some((k, v)) => vec![(k.to_string(), v.to_string())],
        None => vec![(s, String::new())],
    }
}

fn buffered(b: &[u8]) -> Option<BufferedBody> {
    // BufferedBody is #[non_exhaustive] only for foreign *construction*; go through serde-free path:
    // it has a public field and implements Clone, so build one through the seam-free route below.
    make_buffered(Bytes::copy_from_slice(b))
}

fn make_buffered(bytes: Bytes) -> Option<BufferedBody> {
    // The only way to obtain a BufferedBody outside the crate is via extraction: run the real
    // extractor with no limit pressure on a one-frame body.
    let head = RequestHead {
        method: http::Method::POST,
        target: "/".parse().unwrap(),
        version: http::Version::HTTP_11,
        headers: http::HeaderMap::new(),
    };
    let limit = bytes.len() as u64 + 1;
    let body = http_body_util::Full::new(bytes);
    crate::quiet_panics();
    std::panic::catch_unwind(std::panic::AssertUnwindSafe(|| {
        let fut = BufferedBody::verif_extract_with_limit(&head, body, ByteUnit::Byte(limit));
        let mut fut = std::pin::pin!(fut);
        let w = std::task::Waker::noop();
        let mut cx = Context::from_waker(w);
        match fut.as_mut().poll(&mut cx) {
            Poll::Ready(Ok(b)) => Some(b),
            _ => None,
        }
    }))
    .ok()
    .flatten()
}

fn run_frames(script: &Script, tape: &mut Tape, keep: bool) -> RunOut {
    let mut out = RunOut::new(EventLog::new(keep));
    let data = make_body(script);
    let head = head_for(script, data.len());
    let stats = std::rc::Rc::new(std::cell::RefCell::new(BodyStats::default()));
    let body = ScriptedBody {
        data: Bytes::from(data.clone()),
        pos: 0,
        ops: script.frames.iter().cloned().collect(),
        hint: script.hint.clone(),
        pending_waker: None,
        delivered: 0,
        errored: false,
        ended: false,
        polls: 0,
        stats: stats.clone(),
    };
    out.log.ev(format_args!("limit={} body_len={} cl={:?} hint={:?} frames={}", script.limit, data.len(), script.cl, script.hint, script.frames.len()));
    let fut = BufferedBody::verif_extract_with_limit(&head, body, ByteUnit::Byte(script.limit));
    let mut fut = Box::pin(fut);
    let flag = std::sync::Arc::new(FlagWaker(std::sync::atomic::AtomicBool::new(true)));
    let waker = std::task::Waker::from(flag.clone());
    let mut cx = Context::from_waker(&waker);
    // the companion extraction (same thread, other bytes)
    let data_b: Vec<u8> = if script.dual { Rng::new(script.body_seed ^ 0xB0D1).bytes(data.len()) } else { Vec::new() };
    let stats_b = std::rc::Rc::new(std::cell::RefCell::new(BodyStats::default()));
    let head_b = head_for(script, data.len());
    let mut fut_b = if script.dual {
        let body_b = ScriptedBody {
            data: Bytes::from(data_b.clone()),
            pos: 0,
            ops: script.frames.iter().cloned().collect(),
            hint: script.hint.clone(),
            pending_waker: None,
            delivered: 0,
            errored: false,
            ended: false,
            polls: 0,
            stats: stats_b.clone(),
        };
        Some(Box::pin(BufferedBody::verif_extract_with_limit(&head_b, body_b, ByteUnit::Byte(script.limit))))
    } else {
        None
    };
    let flag_b = std::sync::Arc::new(FlagWaker(std::sync::atomic::AtomicBool::new(true)));
    let waker_b = std::task::Waker::from(flag_b.clone());
    let mut cx_b = Context::from_waker(&waker_b);
    let mut result_b: Option<Result<BufferedBody, ExtractBufferedBodyError>> = None;
    let mut polls = 0u64;
    let mut panicked: Option<String> = None;
    // The extractor runs where it runs in production: inside a tokio runtime (current thread, clock
    // paused), so that code which uses tokio's timers neither panics for want of a reactor nor waits in
    // real time. The futures are still polled by hand, in the order the tape dictates; simulated time
    // passes only where the script says the transport stalls (`stalls_ms`).
    let rt = tokio::runtime::Builder::new_current_thread().enable_time().start_paused(true).build().expect("runtime");
    let mut pendings = 0usize;
    let result = rt.block_on(async { loop {
        polls += 1;
        if polls > 20 * script.frames.len() as u64 + 200 {
            break None;
        }
        // interleave: the tape decides whose turn it is while both are in flight
        if let Some(fb) = fut_b.as_mut() {
            if result_b.is_none() && tape.chance(1, 2) {
                if flag_b.0.swap(false, std::sync::atomic::Ordering::SeqCst) || tape.chance(1, 4) {
                    crate::quiet_panics();
                    match std::panic::catch_unwind(std::panic::AssertUnwindSafe(|| fb.as_mut().poll(&mut cx_b))) {
                        Ok(Poll::Ready(r)) => result_b = Some(r),
                        Ok(Poll::Pending) => {
                            out.log.sched(format_args!("pending(b)"));
                        }
                        Err(_) => {
                            panicked = Some(crate::take_panics().join(" | "));
                            break None;
                        }
                    }
                }
                continue;
            }
        }
        // spurious extra polls are legal for any future: the tape decides
        if !flag.0.swap(false, std::sync::atomic::Ordering::SeqCst) && !tape.chance(1, 4) {
            // not woken and no spurious poll: the transport has stalled for good
            break None;
        }
        crate::quiet_panics();
        match std::panic::catch_unwind(std::panic::AssertUnwindSafe(|| fut.as_mut().poll(&mut cx))) {
            Ok(Poll::Ready(r)) => break Some(r),
            Ok(Poll::Pending) => {
                out.log.sched(format_args!("pending"));
                if !script.stalls_ms.is_empty() {
                    let ms = script.stalls_ms[pendings % script.stalls_ms.len()];
                    pendings += 1;
                    if ms > 0 {
                        out.count("transport_stalled_in_simulated_time", 1);
                        tokio::time::sleep(std::time::Duration::from_millis(ms as u64)).await;
                    }
                }
            }
            Err(_) => {
                panicked = Some(crate::take_panics().join(" | "));
                break None;
            }
        }
    } });
    let _in_runtime = rt.enter();
    // let the companion finish (a bounded number of polls)
    if let Some(fb) = fut_b.as_mut() {
        let mut extra = 0;
        while result_b.is_none() && panicked.is_none() && extra < 10 * script.frames.len() + 50 {
            extra += 1;
            if !flag_b.0.swap(false, std::sync::atomic::Ordering::SeqCst) && extra > 3 {
                break;
            }
            match std::panic::catch_unwind(std::panic::AssertUnwindSafe(|| fb.as_mut().poll(&mut cx_b))) {
                Ok(Poll::Ready(r)) => result_b = Some(r),
                Ok(Poll::Pending) => {}
                Err(_) => {
                    panicked = Some(crate::take_panics().join(" | "));
                }
            }
        }
    }
    drop(fut_b);
    if script.dual {
        out.count("concurrent_extractions_on_one_thread", 1);
        if let Some(Ok(b)) = &result_b {
            let n = limit_usize(script.limit);
            let delivered_b = stats_b.borrow().delivered;
            let want = &data_b[..delivered_b.min(data_b.len())];
            if b.bytes.len() > n {
                out.violations.push(viol("never-more-than-limit", "frames concurrent extraction".into(), format!("a concurrent extraction returned {} bytes with a limit of {n}", b.bytes.len())));
            } else if b.bytes.as_ref() != want {
                out.violations.push(viol("byte-identical", "frames concurrent extraction".into(), format!("two extractions were in flight on one thread: one of them returned {} bytes that are not the {} bytes its own transport delivered", b.bytes.len(), want.len())));
            }
        }
    }
    drop(fut);
    if let Some(msg) = &panicked {
        out.violations.push(viol("no-panic", "extractor panicked (frames)".into(), format!("the extractor panicked instead of returning a body or an error: {}", msg.chars().take(200).collect::<String>())));
    }
    let st = stats.borrow();
    let n = limit_usize(script.limit);
    let header_len: Option<usize> = cl_header(script, data.len()).and_then(|v| v.parse::<usize>().ok());
    let outcome = match result {
        Some(r) => classify(r),
        None => Outcome::NoResult,
    };
    out.log.ev(format_args!("delivered={} errored={} ended={} outcome={}", st.delivered, st.errored, st.ended, short(&outcome)));
    // what the transport would deliver in total if read to the end, and whether an error comes first
    let mut total = 0usize;
    let mut pos = 0usize;
    let mut error_before_excess = false;
    let mut has_error = false;
    for op in &script.frames {
        match op {
            FrameOp::Data(k) => {
                let end = (pos + k).min(data.len());
                total += end - pos;
                pos = end;
            }
            FrameOp::Error => {
                has_error = true;
                if total <= n {
                    error_before_excess = true;
                }
                break;
            }
            _ => {}
        }
    }
    let expected_full = &data[..pos.min(data.len())];
    let header_excess = header_len.is_some_and(|l| l > n);
    let sig = format!(
        "frames cl={} total{}N err={}",
        match (&script.cl, header_len) {
            (Cl::Absent, _) => "absent",
            (_, None) => "unparsable",
            (_, Some(l)) if l > n => ">N",
            _ => "<=N",
        },
        if total > n { ">" } else { "<=" },
        has_error
    );
    match &outcome {
        Outcome::Ok(b) => {
            out.count("ok", 1);
            if b.len() > n {
                out.violations.push(viol("never-more-than-limit", sig.clone(), format!("extractor returned {} bytes with a limit of {} bytes", b.len(), n)));
            }
            if has_error {
                out.violations.push(viol("no-truncated-ok", sig.clone(), format!("transport failed after {} bytes but the extractor returned Ok({} bytes)", total, b.len())));
            } else if b.as_slice() != expected_full {
                out.violations.push(viol("byte-identical", sig.clone(), format!("returned {} bytes, transport delivered {} bytes; first difference at {:?}", b.len(), expected_full.len(), b.iter().zip(expected_full).position(|(x, y)| x != y))));
            }
            if header_excess {
                out.violations.push(viol("content-length-over-limit-rejected", sig.clone(), format!("Content-Length {:?} > limit {} but extraction succeeded", header_len, n)));
            }
            if b.len() <= n && !has_error && b.as_slice() == expected_full {
                let b2 = b.clone();
                check_typed(script, &head, &b2, expected_full, &mut out);
            }
        }
        Outcome::SizeLimit => {
            out.count("size_limit_error", 1);
            if !(header_excess || total > n) && !matches!(script.cl, Cl::Garbage(_)) {
                out.violations.push(viol("fits-is-accepted", sig.clone(), format!("body of {total} bytes, limit {n}, Content-Length {header_len:?}: rejected with a size-limit error although it fits")));
            }
            if !header_excess && st.delivered > 0 {
                out.count("limit_hit_while_streaming", 1);
            }
            if header_excess {
                out.count("rejected_on_header", 1);
                if st.delivered > 0 {
                    out.count("header_excess_but_body_polled", 1);
                }
            }
        }
        Outcome::Unexpected => {
            out.count("transport_error_reported", 1);
            if !has_error {
                out.violations.push(viol("fits-is-accepted", sig.clone(), "unexpected-buffer error without any transport fault".into()));
            } else if !error_before_excess && !header_excess {
                // error frame comes after the limit was already exceeded: size-limit error expected
                out.violations.push(viol("over-limit-is-size-error", sig.clone(), "limit exceeded before the transport error, yet no size-limit error".into()));
            }
        }
        Outcome::NoResult => {
            out.count("stalled", 1);
        }
    }
    // converse obligations
    if matches!(outcome, Outcome::Ok(_)) && total > n {
        // already flagged by never-more-than-limit or byte-identical
    }
    out.count("pending_returns", st.pendings);
    out.count("empty_data_frames", st.empty_frames);
    out.count("trailer_frames", st.trailer_frames);
    if st.errored {
        out.count("fault_error_frame", 1);
    }
    if matches!(script.hint, Hint::Lying(_)) {
        out.count("fault_lying_size_hint", 1);
    }
    match (&script.cl, header_len) {
        (Cl::Absent, _) => out.count("cl_absent", 1),
        (Cl::Garbage(_), _) => out.count("fault_cl_garbage", 1),
        (_, Some(l)) if l != data.len() => out.count("fault_cl_lying", 1),
        _ => out.count("cl_truthful", 1),
    }
    let rel = if total > n { "over" } else if total == n { "at" } else if total + 1 == n { "just-under" } else { "under" };
    out.states.push(format!("B|{}|{}|{}|frames{}", rel, sig, short_kind(&outcome), script.frames.len().min(3)));
    out.nontrivial = script.frames.len() > 1 || !matches!(script.cl, Cl::Truthful);
    // fold the frame shape into the schedule hash so that distinct fragmentations count as distinct
    out.log.sched(format_args!("{:?}|{:?}|{}|{}", script.frames, script.cl, script.limit, script.body_len));
    out
}

fn short(o: &Outcome) -> String {
    match o {
        Outcome::Ok(b) => format!("Ok({})", b.len()),
        Outcome::SizeLimit => "SizeLimit".into(),
        Outcome::Unexpected => "Unexpected".into(),
        Outcome::NoResult => "NoResult".into(),
    }
}


// ---------------------------------------------------------------------------------------------
// mode A: a real hyper HTTP/1 connection over a simulated socket

#[derive(Default)]
struct WireRec {
    service_called: bool,
    seen_cl: Option<String>,
    seen_te: bool,
    outcome: Option<Outcome>,
    client_wrote: usize,
    client_done: bool,
    fault_fired: Option<&'static str>,
}

thread_local! {
    static WIRE: std::cell::RefCell<WireRec> = std::cell::RefCell::new(WireRec::default());
    static WIRE_LIMIT: std::cell::Cell<u64> = const { std::cell::Cell::new(0) };
    static WIRE_LIMIT_DEFAULT: std::cell::Cell<bool> = const { std::cell::Cell::new(false) };
}

/// The request as bytes, plus the decoded body the framing announces.
fn wire_message(script: &Script, data: &[u8]) -> (Vec<u8>, Vec<u8>, bool) {
    let mut m = Vec::new();
    m.extend_from_slice(format!("{} /upload HTTP/1.1\r\nhost: sim\r\n", method_of(script)).as_bytes());
    match script.payload {
        Payload::Json => m.extend_from_slice(b"content-type: application/json\r\n"),
        Payload::Form => m.extend_from_slice(b"content-type: application/x-www-form-urlencoded\r\n"),
        Payload::Random => {}
    }
    let mut valid = true;
    match &script.framing {
        Framing::Length => {
            let announced: Vec<u8>;
            match cl_header(script, data.len()) {
                None => {
                    announced = Vec::new();
                }
                Some(v) => {
                    m.extend_from_slice(format!("content-length: {v}\r\n").as_bytes());
                    // optional whitespace around a field value is not part of the value
                    let v = v.trim_matches(|c| c == ' ' || c == '\t').to_string();
                    match v.parse::<u64>() {
                        Ok(n) if v.bytes().all(|b| b.is_ascii_digit()) => {
                            announced = data[..(n.min(data.len() as u64) as usize)].to_vec();
                            if n as usize > data.len() {
                                // more announced than will ever be sent: the message is incomplete
                                valid = false;
                            }
                        }
                        _ => {
                            valid = false;
                            announced = Vec::new();
                        }
                    }
                }
            }
            m.extend_from_slice(b"\r\n");
            m.extend_from_slice(data);
            (m, announced, valid)
        }
        Framing::H2(sizes) => {
            fn frame(ty: u8, flags: u8, stream: u32, payload: &[u8]) -> Vec<u8> {
                let n = payload.len() as u32;
                let mut f = vec![(n >> 16) as u8, (n >> 8) as u8, n as u8, ty, flags];
                f.extend_from_slice(&stream.to_be_bytes());
                f.extend_from_slice(payload);
                f
            }
            // literal header field without indexing, name taken from the static table
            fn lit(block: &mut Vec<u8>, name_index: u8, value: &[u8]) {
                if name_index < 15 {
                    block.push(name_index);
                } else {
                    block.extend_from_slice(&[0x0f, name_index - 15]);
                }
                block.push(value.len() as u8); // < 127, no Huffman coding
                block.extend_from_slice(value);
            }
            let mut m = b"PRI * HTTP/2.0\r\n\r\nSM\r\n\r\n".to_vec();
            m.extend(frame(4, 0, 0, &[]));
            // :method POST (static index 3) or GET (index 2), :scheme http, :path /upload, :authority sim
            let mut block = vec![if script.method == 1 { 0x82u8 } else { 0x83u8 }, 0x86];
            lit(&mut block, 4, b"/upload");
            lit(&mut block, 1, b"sim");
            match script.payload {
                Payload::Json => lit(&mut block, 31, b"application/json"),
                Payload::Form => lit(&mut block, 31, b"application/x-www-form-urlencoded"),
                Payload::Random => {}
            }
            if let Some(v) = cl_header(script, data.len()) {
                let digits = !v.is_empty() && v.bytes().all(|b| b.is_ascii_digit());
                if !digits || v.parse::<u64>().map(|n| n != data.len() as u64).unwrap_or(true) {
                    valid = false;
                }
                let v = &v.as_bytes()[..v.len().min(100)];
                lit(&mut block, 28, v);
            }
            // END_HEADERS, and END_STREAM when there is no body at all
            m.extend(frame(1, if data.is_empty() { 0x5 } else { 0x4 }, 1, &block));
            let mut pos = 0;
            let mut cuts: Vec<usize> = Vec::new();
            for want in sizes.iter() {
                // a size of 0 is an EMPTY DATA frame in the middle of the body (legal, RFC 9113 §6.1)
                let k = (*want).min(data.len() - pos).min(16_384);
                if k == 0 && (*want != 0 || pos >= data.len()) {
                    continue;
                }
                pos += k;
                cuts.push(pos);
            }
            while pos < data.len() {
                pos += (data.len() - pos).min(16_384);
                cuts.push(pos);
            }
            let mut from = 0;
            for (i, c) in cuts.iter().enumerate() {
                m.extend(frame(0, if i + 1 == cuts.len() { 0x1 } else { 0 }, 1, &data[from..*c]));
                from = *c;
            }
            (m, data.to_vec(), valid)
        }
        Framing::Chunked(sizes) => {
            if let Some(v) = cl_header(script, data.len()) {
                // both headers: Transfer-Encoding wins; still a well-formed message only if the
                // value is numeric (hyper rejects the rest)
                let v = v.trim_matches(|c| c == ' ' || c == '\t').to_string();
                if !v.bytes().all(|b| b.is_ascii_digit()) || v.is_empty() || v.parse::<u64>().is_err() {
                    valid = false;
                }
                m.extend_from_slice(format!("content-length: {v}\r\n").as_bytes());
            }
            m.extend_from_slice(b"transfer-encoding: chunked\r\n\r\n");
            let mut pos = 0;
            for (i, k) in sizes.iter().enumerate() {
                let k = (*k).min(data.len() - pos);
                if k == 0 {
                    continue;
                }
                if i % 3 == 1 {
                    m.extend_from_slice(format!("{k:x};ext=1\r\n").as_bytes());
                } else {
                    m.extend_from_slice(format!("{k:X}\r\n").as_bytes());
                }
                m.extend_from_slice(&data[pos..pos + k]);
                m.extend_from_slice(b"\r\n");
                pos += k;
            }
            if pos < data.len() {
                m.extend_from_slice(format!("{:x}\r\n", data.len() - pos).as_bytes());
                m.extend_from_slice(&data[pos..]);
                m.extend_from_slice(b"\r\n");
            }
            if sizes.len() % 2 == 1 {
                m.extend_from_slice(b"0\r\nx-trailer: 1\r\n\r\n");
            } else {
                m.extend_from_slice(b"0\r\n\r\n");
            }
            (m, data.to_vec(), valid)
        }
    }
}

/// Like the executor of pavex's workers: connection-level tasks of the HTTP/2 server go to the
/// `LocalSet` of the simulated server thread.
#[derive(Clone, Copy)]
struct LocalExec;

impl<F> hyper::rt::Executor<F> for LocalExec
where
    F: std::future::Future + 'static,
{
    fn execute(&self, fut: F) {
        tokio::task::spawn_local(fut);
    }
}

async fn wire_service(req: hyper::Request<hyper::body::Incoming>) -> Result<hyper::Response<http_body_util::Full<Bytes>>, std::convert::Infallible> {
    use pavex::request::body::{BodySizeLimit, RawIncomingBody};
    let (parts, body) = req.into_parts();
    let head: RequestHead = parts.into();
    WIRE.with(|w| {
        let mut w = w.borrow_mut();
        w.service_called = true;
        w.seen_cl = head.headers.get(http::header::CONTENT_LENGTH).map(|v| String::from_utf8_lossy(v.as_bytes()).to_string());
        w.seen_te = head.headers.contains_key(http::header::TRANSFER_ENCODING);
    });
    crate::slog!("service called (content-length header: {:?})", head.headers.get(http::header::CONTENT_LENGTH));
    let limit = if WIRE_LIMIT_DEFAULT.with(|l| l.get()) { BodySizeLimit::default() } else { BodySizeLimit::Enabled { max_size: ByteUnit::Byte(WIRE_LIMIT.with(|l| l.get())) } };
    let r = BufferedBody::extract(&head, RawIncomingBody::from(body), limit).await;
    let o = classify(r);
    crate::slog!("extraction finished: {}", short(&o));
    let status = if matches!(o, Outcome::Ok(_)) { 200 } else { 413 };
    WIRE.with(|w| w.borrow_mut().outcome = Some(o));
    Ok(hyper::Response::builder().status(status).body(http_body_util::Full::new(Bytes::from_static(b"done"))).unwrap())
}

fn run_wire(script: &Script, tape: &mut Tape, keep: bool) -> RunOut {
    use crate::{net, sched};
    use tokio::io::{AsyncReadExt, AsyncWriteExt};
    let data = make_body(script);
    let (msg, announced, valid) = wire_message(script, &data);
    WIRE.with(|w| *w.borrow_mut() = WireRec::default());
    WIRE_LIMIT.with(|l| l.set(script.limit));
    WIRE_LIMIT_DEFAULT.with(|l| l.set(script.limit_default));
    crate::seams::set_clock_ns(crate::seams::EPOCH_S * 1_000_000_000, 0);
    crate::seams::set_entropy(Some(14));
    let my_tape = std::mem::replace(tape, Tape::replay(vec![]));
    sched::install(my_tape, EventLog::new(keep), 400_000);
    let rt = sched::runtime();
    let frags = script.fragments.clone();
    let fault = script.fault.clone();
    let is_h2 = matches!(script.framing, Framing::H2(_));
    let cap = script.pipe_capacity.max(1);
    let total = msg.len();
    let msg_len = msg.len();
    crate::quiet_panics();
    let _ = crate::take_panics();
    let run_res = std::panic::catch_unwind(std::panic::AssertUnwindSafe(|| rt.block_on(async move {
        sched::start_clock();
        let (mut cl, sv, _pipes) = net::connection(0, cap, 65_536, false);
        let server = sched::spawn("server", true, move || {
            Box::pin(async move {
                let io = hyper_util::rt::TokioIo::new(sv);
                let r = if is_h2 {
                    hyper::server::conn::http2::Builder::new(LocalExec).serve_connection(io, hyper::service::service_fn(wire_service)).await
                } else {
                    hyper::server::conn::http1::Builder::new().serve_connection(io, hyper::service::service_fn(wire_service)).await
                };
                crate::slog!("connection finished: {}", if r.is_ok() { "ok".to_string() } else { format!("{:?}", r.err().map(|e| e.to_string())) });
            })
        });
        let client = sched::spawn("client", false, move || {
            Box::pin(async move {
                let mut pos = 0usize;
                let stop_at: Option<usize> = match &fault {
                    WireFault::None => None,
                    WireFault::HalfCloseAfter(n) | WireFault::StallAfter(n) | WireFault::ResetAfter(n) => Some((*n).min(total)),
                };
                let mut fi = 0usize;
                'w: while pos < total {
                    let (len, delay_ms) = frags.get(fi).copied().unwrap_or((total, 0));
                    fi += 1;
                    if delay_ms > 0 {
                        tokio::time::sleep(std::time::Duration::from_millis(delay_ms)).await;
                    }
                    let mut end = (pos + len.max(1)).min(total);
                    if let Some(s) = stop_at {
                        end = end.min(s.max(pos));
                    }
                    if end > pos {
                        if cl.write_all(&msg[pos..end]).await.is_err() {
                            break 'w;
                        }
                        pos = end;
                        WIRE.with(|w| w.borrow_mut().client_wrote = pos);
                    }
                    if Some(pos) == stop_at && pos < total {
                        match &fault {
                            WireFault::HalfCloseAfter(_) => {
                                let _ = cl.shutdown().await;
                                WIRE.with(|w| w.borrow_mut().fault_fired = Some("fault_half_close"));
                            }
                            WireFault::StallAfter(_) => {
                                WIRE.with(|w| w.borrow_mut().fault_fired = Some("fault_stall"));
                                tokio::time::sleep(std::time::Duration::from_secs(600)).await;
                                return;
                            }
                            WireFault::ResetAfter(_) => {
                                WIRE.with(|w| w.borrow_mut().fault_fired = Some("fault_reset"));
                                cl.reset();
                                return;
                            }
                            WireFault::None => {}
                        }
                        break 'w;
                    }
                }
                WIRE.with(|w| w.borrow_mut().client_done = pos >= total);
                // read whatever the server answers, until it closes or we lose patience
                let mut buf = [0u8; 256];
                let _ = tokio::time::timeout(std::time::Duration::from_secs(300), async {
                    let mut seen: Vec<u8> = Vec::new();
                    loop {
                        match cl.read(&mut buf).await {
                            Ok(0) | Err(_) => break,
                            Ok(k) => {
                                seen.extend_from_slice(&buf[..k]);
                                if seen.ends_with(b"\r\n\r\ndone") || seen.windows(8).any(|w| w == b"HTTP/1.1") && seen.ends_with(b"\r\n\r\n") {
                                    break;
                                }
                                // HTTP/2: the response body travels in a DATA frame
                                if is_h2 && seen.windows(4).any(|w| w == b"done") {
                                    break;
                                }
                            }
                        }
                    }
                })
                .await;
            })
        });
        let main = sched::spawn("driver", false, move || {
            Box::pin(async move {
                for _ in 0..2000 {
                    if sched::is_done(client) && sched::is_done(server) {
                        break;
                    }
                    if sched::is_done(client) && WIRE.with(|w| w.borrow().outcome.is_some()) {
                        break;
                    }
                    tokio::time::sleep(std::time::Duration::from_millis(500)).await;
                }
            })
        });
        sched::root(main).await;
    })));
    let wire_panics: Vec<String> = crate::take_panics();
    let sim_ns;
    let inner = {
        let _g = rt.enter();
        sim_ns = sched::now_ns();
        sched::uninstall()
    };
    drop(rt);
    crate::seams::clear_clock();
    crate::seams::set_entropy(None);
    *tape = inner.tape;
    let mut out = RunOut::new(inner.log);
    out.sim_ns = sim_ns;
    if inner.overflow {
        simcore::driver::harness_error("bodysim(wire): step cap exceeded");
    }
    let rec = WIRE.with(|w| std::mem::take(&mut *w.borrow_mut()));
    if run_res.is_err() || !wire_panics.is_empty() {
        out.violations.push(viol("no-panic", "extractor panicked (wire)".into(), format!("a panic occurred while serving the request: {}", wire_panics.join(" | ").chars().take(200).collect::<String>())));
    }
    let n = limit_usize(script.limit);
    // Content-Length as the extractor sees and parses it
    let header_len: Option<usize> = rec.seen_cl.as_ref().and_then(|v| v.parse::<usize>().ok());
    let header_excess = header_len.is_some_and(|l| l > n);
    let message_complete = rec.client_done && valid;
    let outcome = rec.outcome.clone().unwrap_or(Outcome::NoResult);
    let framing = match &script.framing {
        Framing::Length => "length",
        Framing::Chunked(_) => "chunked",
        Framing::H2(_) => "h2",
    };
    let sig = format!(
        "wire {framing} cl={} body{}N complete={}",
        match (&script.cl, header_len) {
            (Cl::Absent, _) => "absent",
            (_, None) => "unparsable",
            (_, Some(l)) if l > n => ">N",
            _ => "<=N",
        },
        if announced.len() > n { ">" } else { "<=" },
        message_complete
    );
    out.log.ev(format_args!("limit={n} announced_body={} sent={}/{} complete={message_complete} outcome={}", announced.len(), rec.client_wrote, total, short(&outcome)));
    match &outcome {
        Outcome::Ok(b) => {
            out.count("ok", 1);
            if b.len() > n {
                out.violations.push(viol("never-more-than-limit", sig.clone(), format!("extractor returned {} bytes with a limit of {n} bytes", b.len())));
            }
            if b.as_slice() != announced.as_slice() {
                // a truncated or altered body handed to the application
                out.violations.push(viol(
                    if b.len() < announced.len() { "no-truncated-ok" } else { "byte-identical" },
                    sig.clone(),
                    format!("returned {} bytes, the request's body is {} bytes (client sent {}/{} bytes of the message)", b.len(), announced.len(), rec.client_wrote, total),
                ));
            } else if !message_complete && rec.client_wrote < total && matches!(script.framing, Framing::Chunked(_)) {
                // body matched although the terminating chunk never arrived?
                let need = msg_len - if matches!(&script.framing, Framing::Chunked(s) if s.len() % 2 == 1) { 17 } else { 2 };
                if rec.client_wrote + 3 < need {
                    out.violations.push(viol("no-truncated-ok", sig.clone(), "chunked body accepted before its terminating chunk was sent".into()));
                }
            }
            if header_excess {
                out.violations.push(viol("content-length-over-limit-rejected", sig.clone(), format!("Content-Length {header_len:?} > limit {n} but extraction succeeded")));
            }
            if b.len() <= n && b.as_slice() == announced.as_slice() {
                let head = head_for(script, data.len());
                check_typed(script, &head, b, &announced, &mut out);
            }
        }
        Outcome::SizeLimit => {
            out.count("size_limit_error", 1);
            if !(header_excess || announced.len() > n) && !matches!(script.cl, Cl::Garbage(_)) {
                out.violations.push(viol("fits-is-accepted", sig.clone(), format!("body of {} bytes, limit {n}, Content-Length {header_len:?}: rejected with a size-limit error although it fits", announced.len())));
            }
            if header_excess {
                out.count("rejected_on_header", 1);
            } else {
                out.count("limit_hit_while_streaming", 1);
            }
        }
        Outcome::Unexpected => {
            out.count("transport_error_reported", 1);
            if message_complete && rec.fault_fired.is_none() {
                out.violations.push(viol("fits-is-accepted", sig.clone(), "unexpected-buffer error although the whole, well-formed request was delivered".into()));
            }
        }
        Outcome::NoResult => {
            out.count("no_result", 1);
            if message_complete && rec.fault_fired.is_none() && rec.service_called {
                out.violations.push(viol("extraction-completes", sig.clone(), format!("the whole request ({total} bytes) was delivered but the extraction never finished")));
            }
            if !rec.service_called {
                out.count("rejected_before_service", 1);
            }
        }
    }
    // converse: a complete, well-formed request that fits must be accepted
    if message_complete && rec.fault_fired.is_none() && rec.service_called && announced.len() <= n && !header_excess && !matches!(outcome, Outcome::Ok(_)) && !matches!(script.cl, Cl::Garbage(_)) {
        if !out.violations.iter().any(|v| v.invariant == "fits-is-accepted" || v.invariant == "extraction-completes") {
            out.violations.push(viol("fits-is-accepted", sig.clone(), format!("a complete request whose body ({} bytes) fits the limit ({n}) ended in {}", announced.len(), short(&outcome))));
        }
    }
    if let Some(f) = rec.fault_fired {
        out.count(f, 1);
    }
    match (&script.cl, header_len) {
        (Cl::Absent, _) => out.count("cl_absent", 1),
        (Cl::Garbage(_), _) => out.count("fault_cl_garbage", 1),
        (_, Some(l)) if l != data.len() => out.count("fault_cl_lying", 1),
        _ => out.count("cl_truthful", 1),
    }
    if rec.seen_te {
        out.count("chunked_requests", 1);
    }
    if script.limit_default {
        out.count("default_limit_runs", 1);
    }
    if is_h2 {
        out.count("h2_requests", 1);
        if rec.service_called {
            out.count("h2_requests_reaching_the_extractor", 1);
        }
    }
    for (k, v) in &inner.counters {
        out.count(k, *v);
    }
    let rel = if announced.len() > n { "over" } else if announced.len() == n { "at" } else { "under" };
    out.states.push(format!("A|{framing}|{rel}|{}|{}", short_kind(&outcome), rec.fault_fired.unwrap_or("nofault")));
    out.nontrivial = script.fragments.len() > 1 || !matches!(script.cl, Cl::Truthful);
    out
}

fn short_kind(o: &Outcome) -> &'static str {
    match o {
        Outcome::Ok(_) => "Ok",
        Outcome::SizeLimit => "SizeLimit",
        Outcome::Unexpected => "Unexpected",
        Outcome::NoResult => "NoResult",
    }
}

fn gen_limit(rng: &mut Rng) -> u64 {
    match rng.below(12) {
        0 => 0,
        1 => 1,
        2 => 2,
        3 => rng.range(3, 16),
        4 | 5 => rng.range(17, 300),
        6 => rng.range(301, 5000),
        7 => 65_536,
        8 => 2_000_000,
        9 => *rng.pick(&[u64::MAX, 1 << 32, (1 << 32) + 5, u32::MAX as u64]),
        10 => u64::MAX - rng.below(3),
        _ => rng.range(1, 100_000),
    }
}

fn gen_body_len(rng: &mut Rng, limit: u64, big_ok: bool) -> usize {
    let cap: u64 = if big_ok { 2_100_000 } else { 200_000 };
    let l = limit.min(cap);
    let v = match rng.below(10) {
        0 => 0,
        1 => l.saturating_sub(1),
        2 | 3 => l,
        4 | 5 => l.saturating_add(1),
        6 => l.saturating_mul(2),
        7 => rng.range(0, l.saturating_mul(3).min(cap)),
        8 => rng.range(0, 64),
        _ => rng.range(0, l.saturating_add(8)),
    };
    v.min(cap + 8) as usize
}

fn gen_cl(rng: &mut Rng, body_len: usize, limit: u64) -> Cl {
    match rng.below(12) {
        0 | 1 => Cl::Absent,
        2..=4 => Cl::Truthful,
        5 => Cl::Value((body_len as u64).saturating_sub(rng.range(1, 3))),
        6 => Cl::Value(body_len as u64 + rng.range(1, 3)),
        7 => Cl::Value(limit),
        8 => Cl::Value(limit.saturating_add(1)),
        9 => Cl::Value(*rng.pick(&[0, u64::MAX, u64::MAX / 2, 1 << 32, (1 << 32) + 1])),
        10 => Cl::Garbage(rng.pick(&["", "abc", "-1", "1e3", "18446744073709551616", " 5", "5 ", "0x10", "+5", "5,5"]).to_string()),
        _ => Cl::Value(rng.range(0, 2 * limit.min(1 << 40).max(4))),
    }
}

fn gen_frames(rng: &mut Rng, body_len: usize) -> Vec<FrameOp> {
    let mut frames = Vec::new();
    let mut left = body_len;
    let style = rng.below(6);
    let max_frames = 40;
    while left > 0 && frames.len() < max_frames {
        let k = match style {
            0 => left,
            1 => 1.min(left),
            2 => rng.usize(1, left.min(7)),
            3 => rng.usize(1, left),
            4 => (left / 2).max(1),
            _ => rng.usize(0, left.min(4096)),
        };
        if rng.chance(1, 8) {
            frames.push(FrameOp::Pending);
        }
        if rng.chance(1, 12) {
            frames.push(FrameOp::Data(0));
        }
        frames.push(FrameOp::Data(k));
        left -= k;
    }
    if left > 0 {
        frames.push(FrameOp::Data(left));
    }
    if rng.chance(1, 6) {
        frames.push(FrameOp::Trailers);
    }
    if rng.chance(1, 6) {
        // a transport error somewhere
        let at = rng.usize(0, frames.len());
        frames.insert(at, FrameOp::Error);
    }
    if rng.chance(1, 10) {
        frames.push(FrameOp::Pending);
    }
    frames
}

impl Sim for BodySim {
    type Script = Script;
    fn name() -> &'static str {
        "bodysim"
    }
    fn properties() -> &'static [&'static str] {
        &["C14"]
    }
    fn runs(_p: &str, tier: Tier) -> u64 {
        match tier {
            Tier::Quick => 300_000,
            Tier::Thorough => 20_000_000,
        }
    }
    fn meta(_p: &str) -> SimMeta {
        SimMeta {
            rule: "Each run draws limit N (0, 1, small, 64 KiB, the 2 MB default, near u64::MAX), a body length around N (N-1, N, N+1, 0, 2N, uniform), a Content-Length header (absent, truthful, too small, too large, = N, N+1, extreme, garbage) and a transport script. Mode B: scripted http_body::Body frames (sizes, empty frames, trailers, Pending, error frame, lying size_hint) into the real _extract_with_limit. Mode A: raw HTTP/1.1 bytes written in seeded fragments with seeded delays over a simulated socket of seeded capacity into a real hyper connection whose service calls the public BufferedBody::extract; client and server are two simulated threads interleaved by the choice tape; faults: half-close, stall, reset mid-body. Non-trivial: more than one frame/fragment or a non-truthful Content-Length. Distinct: distinct hash of (frame/fragment script, header, limit, length, interleaving).".into(),
            real: vec!["pavex BufferedBody::extract / _extract_with_limit".into(), "pavex JsonBody::extract, UrlEncodedBody::extract".into(), "http_body_util::Limited + collect".into(), "hyper 1.x HTTP/1 server connection, request parsing, chunked decoding (mode A)".into(), "hyper 1.x + h2 HTTP/2 server connection, HPACK decoding, DATA frames, content-length validation (mode A, a third of the wire runs whose body fits the default window)".into(), "tokio current-thread runtime with paused clock (mode A)".into()],
            stub: vec!["transport: scripted Body (mode B), in-memory simulated socket + raw client (mode A)".into(), "thread scheduling: seeded choice tape".into()],
            assumptions: vec!["HTTP/2 framing is not exercised (mode A speaks HTTP/1.1 only)".into(), "the body as delivered is defined by HTTP framing: with a too-small Content-Length the message body is its first Content-Length bytes".into()],
            fault_counters: vec!["fault_error_frame".into(), "fault_lying_size_hint".into(), "fault_cl_garbage".into(), "fault_cl_lying".into(), "fault_half_close".into(), "fault_stall".into(), "fault_reset".into()],
            expected_probes: vec!["limit_hit_while_streaming".into(), "rejected_on_header".into(), "pending_returns".into(), "ok".into()],
        }
    }

    fn generate(rng: &mut Rng, _tier: Tier, _p: &str) -> Script {
        let wire = rng.chance(1, 3);
        // a tiny socket buffer costs one scheduling step per byte: keep those runs small
        let wire_cap = *rng.pick(&[1usize, 3, 17, 64, 1024, 65_536, 65_536]);
        let limit = if wire { gen_limit(rng).min(if wire_cap < 64 { 600 } else { 100_000 }) } else { gen_limit(rng) };
        let big_ok = !wire && rng.chance(1, 200);
        let body_len = gen_body_len(rng, limit, big_ok);
        let cl = gen_cl(rng, body_len, limit);
        let payload = match rng.below(5) {
            0 => Payload::Json,
            1 => Payload::Form,
            _ => Payload::Random,
        };
        let frames = gen_frames(rng, body_len);
        let hint = match rng.below(6) {
            0 => Hint::Truthful,
            1 => Hint::Lying(*rng.pick(&[0, 1, u64::MAX, limit, limit.saturating_add(1)])),
            _ => Hint::Default,
        };
        let (framing, fragments, pipe_capacity, fault) = if wire {
            let framing = if rng.chance(1, 2) {
                Framing::Length
            } else {
                let k = rng.usize(1, 6);
                Framing::Chunked((0..k).map(|_| rng.usize(1, body_len.max(1))).collect())
            };
            let approx_total = body_len + 120 + 8 * 8;
            let nfr = rng.usize(1, 8);
            let fragments: Vec<(usize, u64)> = (0..nfr).map(|_| (rng.usize(1, approx_total.max(2)), *rng.pick(&[0u64, 0, 0, 1, 5, 40]))).collect();
            let pipe_capacity = wire_cap;
            let fault = match rng.below(8) {
                0 => WireFault::HalfCloseAfter(rng.usize(0, approx_total)),
                1 => WireFault::StallAfter(rng.usize(0, approx_total)),
                2 => WireFault::ResetAfter(rng.usize(0, approx_total)),
                _ => WireFault::None,
            };
            (framing, fragments, pipe_capacity, fault)
        } else {
            (Framing::Length, vec![], 0, WireFault::None)
        };
        let body_seed = rng.next_u64();
        let dual = !wire && rng.chance(1, 4);
        // last draws (everything above is the same function of the seed as before this arm existed):
        // a third of the wire runs whose body fits the default flow-control window speak HTTP/2
        let framing = if wire && body_len <= 60_000 && rng.chance(1, 3) {
            let k = rng.usize(0, 6);
            Framing::H2((0..k).map(|_| if rng.chance(1, 5) { 0 } else { rng.usize(1, body_len.max(1)) }).collect())
        } else {
            framing
        };
        // ... and one wire run in 150 relies on the DEFAULT limit (documented: 2 MB) with a body around it
        let (limit, body_len, cl, framing, fragments, limit_default) = if wire && rng.chance(1, 150) {
            let body_len = (2_000_000i64 + *rng.pick(&[-1i64, 0, 1, 2, 4_096, 97_152, 97_153, -70_000])) as usize;
            let cl = if rng.chance(1, 3) { Cl::Absent } else { Cl::Truthful };
            let framing = if matches!(cl, Cl::Absent) { Framing::Chunked(vec![rng.usize(1, body_len), rng.usize(1, body_len)]) } else { Framing::Length };
            (2_000_000u64, body_len, cl, framing, vec![(body_len + 4096, 0u64)], true)
        } else {
            (limit, body_len, cl, framing, fragments, false)
        };
        let pipe_capacity = if limit_default { 65_536 } else { pipe_capacity };
        let fault = if limit_default { WireFault::None } else { fault };
        // late draw: one body in six belongs to a content class an extractor might be tempted to
        // "normalise" (byte order marks, blanks, NULs, chunk-terminator look-alikes, gzip magic)
        let content_class = if rng.chance(1, 6) { 1 + rng.below(8) as u8 } else { 0 };
        // a body is legal with every method; HTTP/2 runs keep to the two methods of the static table
        let method = if rng.chance(1, 5) { if matches!(framing, Framing::H2(_)) { 1 } else { 1 + rng.below(5) as u8 } } else { 0 };
        // mode B: simulated time passes while the transport is `Pending` (mostly none, sometimes seconds)
        let stalls_ms: Vec<u32> = if !wire && rng.chance(1, 4) { (0..rng.usize(1, 3)).map(|_| *rng.pick(&[0u32, 1, 50, 4_999, 5_001, 6_000, 31_000])).collect() } else { Vec::new() };
        Script {
            wire,
            limit,
            body_len,
            body_seed,
            payload,
            cl,
            frames,
            hint,
            framing,
            fragments,
            pipe_capacity,
            fault,
            limit_disabled: false,
            dual,
            limit_default,
            content_class,
            method,
            stalls_ms,
        }
    }

    fn run(script: &Script, tape: &mut Tape, keep_log: bool) -> RunOut {
        if script.wire { run_wire(script, tape, keep_log) } else { run_frames(script, tape, keep_log) }
    }

    fn shrink(s: &Script) -> Vec<Script> {
        let mut c = Vec::new();
        // fewer frames
        for i in 0..s.frames.len() {
            let mut t = s.clone();
            let removed = t.frames.remove(i);
            if let FrameOp::Data(k) = removed {
                t.body_len = t.body_len.saturating_sub(k);
            }
            c.push(t);
        }
        if s.body_len > 0 {
            let mut t = s.clone();
            t.body_len /= 2;
            c.push(t);
            let mut t = s.clone();
            t.body_len -= 1;
            c.push(t);
        }
        if s.limit > 0 && s.limit < u64::MAX / 2 {
            let mut t = s.clone();
            t.limit /= 2;
            c.push(t);
            let mut t = s.clone();
            t.limit -= 1;
            c.push(t);
        }
        if s.wire {
            for i in 0..s.fragments.len() {
                let mut t = s.clone();
                t.fragments.remove(i);
                c.push(t);
            }
            if s.fault != WireFault::None {
                let mut t = s.clone();
                t.fault = WireFault::None;
                c.push(t);
            }
            if s.pipe_capacity != 65_536 {
                let mut t = s.clone();
                t.pipe_capacity = 65_536;
                c.push(t);
            }
            if !matches!(s.framing, Framing::Length) {
                let mut t = s.clone();
                t.framing = Framing::Length;
                c.push(t);
            }
            if let Framing::H2(sizes) = &s.framing {
                for i in 0..sizes.len() {
                    let mut t = s.clone();
                    let mut z = sizes.clone();
                    z.remove(i);
                    t.framing = Framing::H2(z);
                    c.push(t);
                }
            }
        }
        if s.payload != Payload::Random {
            let mut t = s.clone();
            t.payload = Payload::Random;
            c.push(t);
        }
        if s.dual {
            let mut t = s.clone();
            t.dual = false;
            c.push(t);
        }
        if s.content_class != 0 {
            let mut t = s.clone();
            t.content_class = 0;
            c.push(t);
        }
        if s.method != 0 {
            let mut t = s.clone();
            t.method = 0;
            c.push(t);
        }
        if !s.stalls_ms.is_empty() {
            let mut t = s.clone();
            t.stalls_ms.clear();
            c.push(t);
        }
        if s.hint != Hint::Default {
            let mut t = s.clone();
            t.hint = Hint::Default;
            c.push(t);
        }
        if s.cl != Cl::Truthful && s.cl != Cl::Absent {
            let mut t = s.clone();
            t.cl = Cl::Absent;
            c.push(t);
        }
        c
    }
}
