//! C16 — graceful shutdown drains in-flight requests and stops accepting new ones.
//!
//! System under test: the REAL `Server`, `ServerHandle`, `Acceptor`, `Worker`, hyper,
//! hyper-util `GracefulShutdown` and the tokio channels between them, compiled with
//! `--cfg pavex_verif`. Simulated: OS threads (see `sched`), listener and sockets (see `net`),
//! the clock (tokio's paused clock: discrete-event time) and every scheduling decision.
use std::cell::RefCell;
use std::collections::BTreeMap;
use std::net::SocketAddr;
use std::time::Duration;

use pavex::Response;
use pavex::connection::ConnectionInfo;
use pavex::server::{IncomingStream, Server, ServerConfiguration, ShutdownMode};
use serde::{Deserialize, Serialize};
use simcore::{EventLog, Rng, RunOut, Sim, Tape, Tier, Violation, driver::SimMeta};
use tokio::io::{AsyncReadExt, AsyncWriteExt};

use crate::net::{self, ConnPipes, SharedListener};
use crate::sched;
use crate::slog;

pub struct SrvSim;

#[derive(Serialize, Deserialize, Clone, Debug, PartialEq)]
pub enum ConnKind {
    /// the whole request is written right after connecting
    Full,
    /// the request is written `delay_ns` after connecting
    Delayed { delay_ns: u64 },
    /// only the first `n` bytes of the request are written, then the client stalls for good
    HalfHeaders { n: usize },
    /// connect and send nothing
    Silent,
    /// keep-alive: a second request `gap_ns` after the first response
    KeepAlive { gap_ns: u64 },
    /// HTTP/2 with prior knowledge: preface, SETTINGS and the HEADERS frames of `streams`
    /// concurrent requests in one burst; PINGs and SETTINGS are acknowledged until the server closes
    H2 { streams: u8 },
}

#[derive(Serialize, Deserialize, Clone, Debug, PartialEq)]
pub enum ConnFault {
    None,
    /// client drops the socket right after writing the request
    DisconnectAfterRequest,
    /// client drops the socket after reading this many response bytes
    DisconnectMidResponse { after: usize },
    /// the handler panics
    HandlerPanic,
    /// the client never reads the response
    StalledReader,
    /// the handler blocks its worker thread (no await) for its whole duration
    BlockingHandler,
}

#[derive(Serialize, Deserialize, Clone, Debug, PartialEq)]
pub enum When {
    /// `ns` after the start of the run
    At { ns: u64 },
    /// `ns` after the shutdown call has *resolved*
    AfterShutdownReturned { ns: u64 },
}

#[derive(Serialize, Deserialize, Clone, Debug, PartialEq)]
pub struct ConnScript {
    pub when: When,
    pub kind: ConnKind,
    pub handler_ms: u64,
    pub fault: ConnFault,
    /// capacity of the client→server and server→client pipes
    pub cap_in: usize,
    pub cap_out: usize,
    /// which listener
    pub listener: usize,
}

#[derive(Serialize, Deserialize, Clone, Debug, PartialEq)]
pub enum Mode {
    Forced,
    Graceful { timeout_ms: u64 },
}

#[derive(Serialize, Deserialize, Clone, Debug, PartialEq)]
pub struct ShutdownScript {
    pub at_ns: u64,
    pub mode: Mode,
    /// a second, concurrent `shutdown()` call on a cloned handle, `ns` after the first
    pub second: Option<(u64, Mode)>,
    /// a task awaiting a clone of the handle from the start
    pub waiter: bool,
    /// a clone of the handle (taken before the call) is awaited for the first time this many ns AFTER
    /// the shutdown call has returned, i.e. when the server is already gone
    #[serde(default)]
    pub late_waiter: Option<u64>,
    /// the caller gives up: the future returned by `shutdown()` is dropped this many ns after the call
    /// unless it has resolved by then (`tokio::time::timeout(d, handle.shutdown(..))`, a `select!`
    /// arm, a cancelled task); the drain must go on regardless
    #[serde(default)]
    pub cancel_after_ns: Option<u64>,
}

#[derive(Serialize, Deserialize, Clone, Debug, PartialEq)]
pub struct Script {
    pub workers: usize,
    pub listeners: usize,
    pub conns: Vec<ConnScript>,
    pub shutdown: Option<ShutdownScript>,
    /// thread-name prefix → scheduling weight (default 8): lets a run starve a thread
    pub weights: Vec<(String, u32)>,
    pub preempt_den: u32,
    pub net_preempt: bool,
    /// fault: at `at_ns` the process runs out of file descriptors for a while — the next `count`
    /// accept attempts on listener 0 that find a pending connection fail with EMFILE
    #[serde(default)]
    pub accept_errors: Option<(u64, u32)>,
}

// ------------------------------------------------------------------------------------------
// per-run records

#[derive(Default, Debug)]
struct ReqRec {
    handler_start: Option<(u64, u64)>,
    handler_end: Option<(u64, u64)>,
    panicked: bool,
}

#[derive(Debug)]
enum ClientResult {
    Refused,
    /// complete, well-formed response; body text
    Response(u16, String),
    /// connection closed before a complete response; bytes received
    Closed(usize),
    /// gave up waiting
    TimedOut(usize),
    /// client-side fault, nothing to check
    Faulted,
    WriteFailed,
}

struct ConnRec {
    peer: SocketAddr,
    connect_seq: u64,
    connect_ns: u64,
    refused: bool,
    accepted_seq: Option<u64>,
    dispatched_seq: Option<u64>,
    dropped_busy: bool,
    kickoff_seq: Option<u64>,
    /// (seq, ns) at which the client had written the whole first request
    req_written: Option<(u64, u64)>,
    req_len: usize,
    /// HTTP/2: byte offset at which the HEADERS frame of stream k (request k) ends
    h2_ends: Vec<usize>,
    results: Vec<(u32, ClientResult, u64)>,
    pipes: Option<ConnPipes>,
}

#[derive(Default)]
struct Run {
    conns: Vec<ConnRec>,
    reqs: BTreeMap<u32, ReqRec>,
    by_peer: BTreeMap<SocketAddr, usize>,
    t_call: Option<(u64, u64)>,
    t_ret: Option<(u64, u64)>,
    second_ret: Option<(u64, u64)>,
    second_call: Option<(u64, u64)>,
    waiter_ret: Option<(u64, u64)>,
    /// (instant the late waiter started awaiting, instant it resolved)
    late_waiter: Option<(u64, Option<u64>)>,
    unexpected_panics: Vec<String>,
    /// connection id → seq at which accept() handed it out
    os_accepted: BTreeMap<usize, u64>,
    /// instant at which the caller dropped the unresolved shutdown future
    caller_gone: Option<u64>,
}

thread_local! {
    static RUN: RefCell<Run> = RefCell::new(Run::default());
}

fn run_mut<R>(f: impl FnOnce(&mut Run) -> R) -> R {
    RUN.with(|r| f(&mut r.borrow_mut()))
}

#[derive(Clone)]
struct St;

const PANIC_MARK: &str = "injected handler panic";

async fn handler(req: http::Request<hyper::body::Incoming>, _ci: Option<ConnectionInfo>, _st: St) -> Response {
    // path: /r/<id>/<ms>[/panic]
    let path = req.uri().path().to_string();
    let mut it = path.split('/').skip(2);
    let id: u32 = it.next().and_then(|s| s.parse().ok()).unwrap_or(u32::MAX);
    let ms: u64 = it.next().and_then(|s| s.parse().ok()).unwrap_or(0);
    let flavour = it.next();
    let panic = flavour == Some("panic");
    let block = flavour == Some("block");
    let s = slog!("handler start req{id} ({ms} ms)");
    let t = sched::now_ns();
    run_mut(|r| r.reqs.entry(id).or_default().handler_start = Some((s, t)));
    if panic {
        sched::count("fault_handler_panic", 1);
        run_mut(|r| r.reqs.entry(id).or_default().panicked = true);
        panic!("{PANIC_MARK}");
    }
    if ms > 0 && block {
        // a blocking / CPU-bound handler: the whole worker thread is stuck for that long
        sched::count("fault_blocking_handler", 1);
        sched::block_current_thread(Duration::from_millis(ms)).await;
    } else if ms > 0 {
        tokio::time::sleep(Duration::from_millis(ms)).await;
    }
    let s = slog!("handler end req{id}");
    let t = sched::now_ns();
    run_mut(|r| r.reqs.entry(id).or_default().handler_end = Some((s, t)));
    Response::ok().set_typed_body(format!("id={id}"))
}

fn on_event(label: &'static str, peer: Option<SocketAddr>) {
    let seq = match peer {
        Some(p) => slog!("{label} peer={p}"),
        None => slog!("{label}"),
    };
    let Some(p) = peer else { return };
    run_mut(|r| {
        let Some(i) = r.by_peer.get(&p).copied() else { return };
        let c = &mut r.conns[i];
        match label {
            "acceptor:accepted" => c.accepted_seq = Some(seq),
            "acceptor:dispatched" => c.dispatched_seq = Some(seq),
            "acceptor:dropped-all-busy" => c.dropped_busy = true,
            "worker:handle-connection" => c.kickoff_seq = Some(seq),
            _ => {}
        }
    });
}

fn req_id(conn: usize, nth: u32) -> u32 {
    conn as u32 * 10 + nth
}

fn request_bytes(id: u32, ms: u64, panic: bool, close: bool, block: bool) -> Vec<u8> {
    format!(
        "GET /r/{id}/{ms}{} HTTP/1.1\r\nhost: sim\r\nx-pad: {}\r\n{}\r\n",
        if panic { "/panic" } else if block { "/block" } else { "" },
        "p".repeat((id % 7) as usize * 3),
        if close { "connection: close\r\n" } else { "" }
    )
    .into_bytes()
}

/// Read one HTTP/1.1 response (status line, headers, content-length body).
async fn read_response(s: &mut net::SimStream, stop_after: Option<usize>) -> Result<(u16, String), usize> {
    let mut buf: Vec<u8> = Vec::new();
    let mut tmp = [0u8; 512];
    loop {
        if let Some(pos) = find(&buf, b"\r\n\r\n") {
            let head = String::from_utf8_lossy(&buf[..pos]).to_string();
            let status: u16 = head.split(' ').nth(1).and_then(|s| s.parse().ok()).unwrap_or(0);
            let cl: usize = head
                .lines()
                .find_map(|l| {
                    let l = l.to_ascii_lowercase();
                    l.strip_prefix("content-length:").map(|v| v.trim().parse::<usize>().unwrap_or(0))
                })
                .unwrap_or(0);
            if buf.len() >= pos + 4 + cl {
                let body = String::from_utf8_lossy(&buf[pos + 4..pos + 4 + cl]).to_string();
                return Ok((status, body));
            }
        }
        if let Some(n) = stop_after {
            if buf.len() >= n {
                return Err(buf.len());
            }
        }
        match s.read(&mut tmp).await {
            Ok(0) => return Err(buf.len()),
            Ok(n) => buf.extend_from_slice(&tmp[..n]),
            Err(_) => return Err(buf.len()),
        }
    }
}

fn find(h: &[u8], n: &[u8]) -> Option<usize> {
    h.windows(n.len()).position(|w| w == n)
}

const CLIENT_PATIENCE: Duration = Duration::from_secs(400);

// ---- a minimal HTTP/2 client (prior knowledge, no TLS): enough of RFC 9113 / 7541 to send GET
// requests and to read the responses of hyper's server byte for byte

const H2_PREFACE: &[u8] = b"PRI * HTTP/2.0\r\n\r\nSM\r\n\r\n";

fn h2_frame(ty: u8, flags: u8, stream: u32, payload: &[u8]) -> Vec<u8> {
    let mut f = Vec::with_capacity(9 + payload.len());
    let n = payload.len() as u32;
    f.extend_from_slice(&[(n >> 16) as u8, (n >> 8) as u8, n as u8, ty, flags]);
    f.extend_from_slice(&(stream & 0x7fff_ffff).to_be_bytes());
    f.extend_from_slice(payload);
    f
}

/// HPACK block of `GET http://sim/r/<id>/<ms>[/block]`: two indexed fields and two literals
/// without indexing (static names), no Huffman coding.
fn h2_request_block(id: u32, ms: u64, block: bool) -> Vec<u8> {
    let path = format!("/r/{id}/{ms}{}", if block { "/block" } else { "" });
    let mut b = vec![0x82, 0x86, 0x04, path.len() as u8];
    b.extend_from_slice(path.as_bytes());
    b.extend_from_slice(&[0x01, 3]);
    b.extend_from_slice(b"sim");
    b
}

async fn h2_client(i: usize, cs: &ConnScript, streams: u8, cl: net::SimStream, finish: &dyn Fn(u32, ClientResult)) {
    let block = cs.fault == ConnFault::BlockingHandler;
    let mut out = H2_PREFACE.to_vec();
    out.extend(h2_frame(4, 0, 0, &[]));
    let mut ends = Vec::new();
    for k in 0..streams as u32 {
        let id = req_id(i, k);
        // END_STREAM | END_HEADERS
        out.extend(h2_frame(1, 0x5, 1 + 2 * k, &h2_request_block(id, cs.handler_ms, block)));
        ends.push(out.len());
    }
    let burst = out.len();
    run_mut(|r| {
        r.conns[i].req_len = ends[0];
        r.conns[i].h2_ends = ends.clone();
    });
    // full duplex, like any real client: the server flushes its own SETTINGS before it reads on,
    // so a client that only writes would deadlock against small socket buffers
    let (mut rd, mut wr) = tokio::io::split(cl);
    let mut written = 0usize;
    // per stream: (status, body, done)
    let mut st: Vec<(u16, Vec<u8>, bool)> = vec![(0, Vec::new(), false); streams as usize];
    let mut buf: Vec<u8> = Vec::new();
    let mut tmp = [0u8; 512];
    let mut got = 0usize;
    let deadline = tokio::time::Instant::now() + CLIENT_PATIENCE;
    'conn: loop {
        // every complete frame in the buffer
        while buf.len() >= 9 {
            let len = ((buf[0] as usize) << 16) | ((buf[1] as usize) << 8) | buf[2] as usize;
            if buf.len() < 9 + len {
                break;
            }
            let (ty, flags) = (buf[3], buf[4]);
            let sid = u32::from_be_bytes([buf[5], buf[6], buf[7], buf[8]]) & 0x7fff_ffff;
            let payload: Vec<u8> = buf[9..9 + len].to_vec();
            buf.drain(..9 + len);
            let k = if sid % 2 == 1 { ((sid - 1) / 2) as usize } else { usize::MAX };
            match ty {
                0 if k < st.len() => {
                    // DATA (the server never pads)
                    st[k].1.extend_from_slice(&payload);
                    if flags & 0x1 != 0 && !st[k].2 {
                        st[k].2 = true;
                        finish(req_id(i, k as u32), ClientResult::Response(st[k].0, String::from_utf8_lossy(&st[k].1).to_string()));
                    }
                }
                1 if k < st.len() => {
                    // HEADERS: `:status` comes first and is an indexed field of the static table
                    st[k].0 = match payload.first() {
                        Some(0x88) => 200,
                        Some(0x8e) => 500,
                        Some(0x8d) => 404,
                        Some(0x8c) => 400,
                        _ => 0,
                    };
                    if flags & 0x1 != 0 && !st[k].2 {
                        st[k].2 = true;
                        finish(req_id(i, k as u32), ClientResult::Response(st[k].0, String::new()));
                    }
                }
                3 if k < st.len() => {
                    // RST_STREAM
                    if !st[k].2 {
                        st[k].2 = true;
                        slog!("client{i} h2 stream {sid} reset by the server");
                        finish(req_id(i, k as u32), ClientResult::Closed(got));
                    }
                }
                4 if flags & 0x1 == 0 => out.extend(h2_frame(4, 0x1, 0, &[])),
                6 if flags & 0x1 == 0 => out.extend(h2_frame(6, 0x1, 0, &payload)),
                7 => {
                    slog!("client{i} h2 GOAWAY last_stream={}", if payload.len() >= 4 { u32::from_be_bytes([payload[0], payload[1], payload[2], payload[3]]) & 0x7fff_ffff } else { 0 });
                }
                _ => {}
            }
        }
        tokio::select! {
            biased;
            w = wr.write(&out), if !out.is_empty() => {
                match w {
                    Ok(n) if n > 0 => {
                        out.drain(..n);
                        let before = written;
                        written += n;
                        if before < burst && written >= burst {
                            let s = slog!("client{i} h2 preface + {streams} request(s) fully written");
                            let t = sched::now_ns();
                            run_mut(|r| r.conns[i].req_written = Some((s, t)));
                            if cs.fault == ConnFault::DisconnectAfterRequest {
                                sched::count("fault_client_disconnect_after_request", 1);
                                finish(req_id(i, 0), ClientResult::Faulted);
                                return;
                            }
                        }
                    }
                    _ => {
                        if written < burst {
                            finish(req_id(i, 0), ClientResult::WriteFailed);
                            return;
                        }
                        break 'conn;
                    }
                }
            }
            r = rd.read(&mut tmp) => {
                match r {
                    Ok(0) | Err(_) => break 'conn,
                    Ok(n) => {
                        got += n;
                        buf.extend_from_slice(&tmp[..n]);
                    }
                }
            }
            _ = tokio::time::sleep_until(deadline) => {
                for k in 0..st.len() {
                    if !st[k].2 {
                        st[k].2 = true;
                        finish(req_id(i, k as u32), ClientResult::TimedOut(got));
                    }
                }
                return;
            }
        }
    }
    for k in 0..st.len() {
        if !st[k].2 {
            finish(req_id(i, k as u32), ClientResult::Closed(got));
        }
    }
}

async fn client(i: usize, cs: ConnScript, listeners: Vec<SharedListener>, ret: tokio::sync::watch::Receiver<bool>, net_preempt: bool) {
    match cs.when {
        When::At { ns } => tokio::time::sleep(Duration::from_nanos(ns)).await,
        When::AfterShutdownReturned { ns } => {
            let mut ret = ret;
            if ret.wait_for(|v| *v).await.is_err() {
                return;
            }
            tokio::time::sleep(Duration::from_nanos(ns)).await;
        }
    }
    let peer = SocketAddr::from(([10, 0, 1, (i / 200) as u8], 1000 + (i % 200) as u16));
    let (mut cl, sv, pipes) = net::connection(i, cs.cap_in, cs.cap_out, net_preempt);
    let seq = slog!("client{i} connect() peer={peer}");
    let ns = sched::now_ns();
    let id0 = req_id(i, 0);
    let req = request_bytes(id0, cs.handler_ms, cs.fault == ConnFault::HandlerPanic, false, cs.fault == ConnFault::BlockingHandler);
    run_mut(|r| {
        r.by_peer.insert(peer, i);
        r.conns[i] = ConnRec {
            peer,
            connect_seq: seq,
            connect_ns: ns,
            refused: false,
            accepted_seq: None,
            dispatched_seq: None,
            dropped_busy: false,
            kickoff_seq: None,
            req_written: None,
            req_len: req.len(),
            h2_ends: Vec::new(),
            results: Vec::new(),
            pipes: Some(pipes),
        };
    });
    if net::connect(&listeners[cs.listener % listeners.len()], sv, peer).is_err() {
        slog!("client{i} connection refused");
        run_mut(|r| {
            r.conns[i].refused = true;
            r.conns[i].results.push((id0, ClientResult::Refused, ns));
        });
        return;
    }
    let finish = |id: u32, res: ClientResult| {
        let t = sched::now_ns();
        slog!("client{i} req{id} result {:?}", res);
        run_mut(|r| r.conns[i].results.push((id, res, t)));
    };
    // write the request
    match &cs.kind {
        ConnKind::Silent => {
            // wait until the server closes, then leave
            let mut tmp = [0u8; 64];
            let _ = tokio::time::timeout(CLIENT_PATIENCE, cl.read(&mut tmp)).await;
            return;
        }
        ConnKind::HalfHeaders { n } => {
            let n = (*n).min(req.len() - 1).max(1);
            if cl.write_all(&req[..n]).await.is_err() {
                finish(id0, ClientResult::WriteFailed);
                return;
            }
            let mut tmp = [0u8; 64];
            let _ = tokio::time::timeout(CLIENT_PATIENCE, cl.read(&mut tmp)).await;
            return;
        }
        ConnKind::Delayed { delay_ns } => tokio::time::sleep(Duration::from_nanos(*delay_ns)).await,
        ConnKind::H2 { streams } => {
            sched::count("h2_connections", 1);
            h2_client(i, &cs, (*streams).clamp(1, 4), cl, &finish).await;
            return;
        }
        _ => {}
    }
    if cl.write_all(&req).await.is_err() {
        finish(id0, ClientResult::WriteFailed);
        return;
    }
    let s = slog!("client{i} req{id0} fully written");
    let t = sched::now_ns();
    run_mut(|r| r.conns[i].req_written = Some((s, t)));
    match cs.fault {
        ConnFault::DisconnectAfterRequest => {
            sched::count("fault_client_disconnect_after_request", 1);
            finish(id0, ClientResult::Faulted);
            return;
        }
        ConnFault::StalledReader => {
            sched::count("fault_stalled_reader", 1);
            tokio::time::sleep(CLIENT_PATIENCE).await;
            finish(id0, ClientResult::Faulted);
            return;
        }
        _ => {}
    }
    let stop_after = match cs.fault {
        ConnFault::DisconnectMidResponse { after } => Some(after.max(1)),
        _ => None,
    };
    let res = tokio::time::timeout(CLIENT_PATIENCE, read_response(&mut cl, stop_after)).await;
    match res {
        Ok(Ok((st, body))) => finish(id0, ClientResult::Response(st, body)),
        Ok(Err(n)) if stop_after.is_some() => {
            let _ = n;
            sched::count("fault_client_disconnect_mid_response", 1);
            finish(id0, ClientResult::Faulted);
            return;
        }
        Ok(Err(n)) => {
            finish(id0, ClientResult::Closed(n));
            return;
        }
        Err(_) => {
            let n = run_mut(|r| r.conns[i].pipes.as_ref().map(|p| p.s2c.lock().unwrap().read as usize).unwrap_or(0));
            finish(id0, ClientResult::TimedOut(n));
            return;
        }
    }
    if let ConnKind::KeepAlive { gap_ns } = cs.kind {
        tokio::time::sleep(Duration::from_nanos(gap_ns)).await;
        let id1 = req_id(i, 1);
        let req = request_bytes(id1, cs.handler_ms / 2, false, true, false);
        if cl.write_all(&req).await.is_err() {
            finish(id1, ClientResult::WriteFailed);
            return;
        }
        slog!("client{i} req{id1} fully written");
        match tokio::time::timeout(CLIENT_PATIENCE, read_response(&mut cl, None)).await {
            Ok(Ok((st, body))) => finish(id1, ClientResult::Response(st, body)),
            Ok(Err(n)) => finish(id1, ClientResult::Closed(n)),
            Err(_) => finish(id1, ClientResult::TimedOut(0)),
        }
    }
}

fn to_mode(m: &Mode) -> ShutdownMode {
    match m {
        Mode::Forced => ShutdownMode::Forced,
        Mode::Graceful { timeout_ms } => ShutdownMode::Graceful { timeout: if *timeout_ms == u64::MAX { Duration::MAX } else { Duration::from_millis(*timeout_ms) } },
    }
}

async fn driver(script: Script) {
    sched::start_clock();
    let mut server = Server::new().set_config(ServerConfiguration::new().set_n_workers(script.workers));
    let mut listeners = Vec::new();
    for l in 0..script.listeners.max(1) {
        let (li, shared) = net::listener(8000 + l as u16);
        listeners.push(shared);
        server = server.listen(IncomingStream::from_sim_listener(Box::new(li)));
    }
    let handle = server.serve(handler, St);
    slog!("server started: {} workers, {} listeners", script.workers, listeners.len());
    let (ret_tx, ret_rx) = tokio::sync::watch::channel(false);
    let mut client_ids = Vec::new();
    for (i, cs) in script.conns.iter().enumerate() {
        let cs = cs.clone();
        let ls = listeners.clone();
        let rx = ret_rx.clone();
        let np = script.net_preempt;
        client_ids.push(sched::spawn(&format!("client{i}"), false, move || Box::pin(client(i, cs, ls, rx, np))));
    }
    let mut aux = Vec::new();
    if let Some((at_ns, count)) = script.accept_errors {
        let l0 = listeners[0].clone();
        aux.push(sched::spawn("fd-exhaustion", false, move || {
            Box::pin(async move {
                tokio::time::sleep(Duration::from_nanos(at_ns)).await;
                l0.lock().unwrap().fail_next = count;
                sched::count("fault_accept_emfile_armed", 1);
                slog!("fault: the next {count} accept attempts on listener 0 fail with EMFILE");
            })
        }));
    }
    match &script.shutdown {
        None => {
            // no shutdown at all: requests must simply be served
        }
        Some(sd) => {
            if sd.waiter {
                let h = handle.clone();
                aux.push(sched::spawn("waiter", false, move || {
                    Box::pin(async move {
                        let r = tokio::time::timeout(Duration::from_secs(3000), h).await;
                        if r.is_ok() {
                            let s = slog!("awaiting the handle resolved");
                            let t = sched::now_ns();
                            run_mut(|r| r.waiter_ret = Some((s, t)));
                        } else {
                            slog!("awaiting the handle did not resolve");
                        }
                    })
                }));
            }
            tokio::time::sleep(Duration::from_nanos(sd.at_ns)).await;
            if let Some((delay, mode2)) = sd.second.clone() {
                let h2 = handle.clone();
                aux.push(sched::spawn("shutdown2", false, move || {
                    Box::pin(async move {
                        tokio::time::sleep(Duration::from_nanos(delay)).await;
                        let s = slog!("second shutdown({:?}) called", mode2);
                        let t = sched::now_ns();
                        run_mut(|r| r.second_call = Some((s, t)));
                        let r = tokio::time::timeout(Duration::from_secs(3000), h2.shutdown(to_mode(&mode2))).await;
                        if r.is_ok() {
                            let s = slog!("second shutdown resolved");
                            let t = sched::now_ns();
                            run_mut(|r| r.second_ret = Some((s, t)));
                        }
                    })
                }));
            }
            let late_handle = sd.late_waiter.map(|_| handle.clone());
            let s = slog!("shutdown({:?}) called", sd.mode);
            let t = sched::now_ns();
            run_mut(|r| r.t_call = Some((s, t)));
            let patience = match sd.cancel_after_ns {
                Some(ns) => Duration::from_nanos(ns),
                None => Duration::from_secs(3000),
            };
            let r = tokio::time::timeout(patience, handle.shutdown(to_mode(&sd.mode))).await;
            if r.is_err() && sd.cancel_after_ns.is_some() {
                slog!("the caller dropped the shutdown future ({} ns after the call)", patience.as_nanos());
                let t = sched::now_ns();
                run_mut(|r| r.caller_gone = Some(t));
                sched::count("fault_caller_dropped_the_shutdown_future", 1);
            } else if r.is_ok() {
                let s = slog!("shutdown resolved");
                let t = sched::now_ns();
                run_mut(|r| r.t_ret = Some((s, t)));
                if let (Some(delay), Some(h)) = (sd.late_waiter, late_handle) {
                    aux.push(sched::spawn("late-waiter", false, move || {
                        Box::pin(async move {
                            tokio::time::sleep(Duration::from_nanos(delay)).await;
                            slog!("a clone of the handle is awaited after the server has stopped");
                            let t0 = sched::now_ns();
                            run_mut(|r| r.late_waiter = Some((t0, None)));
                            if tokio::time::timeout(Duration::from_secs(3000), h).await.is_ok() {
                                slog!("late await resolved");
                                let t1 = sched::now_ns();
                                run_mut(|r| r.late_waiter = Some((t0, Some(t1))));
                            }
                        })
                    }));
                }
            } else {
                slog!("shutdown did not resolve within 3000 s");
            }
            let _ = ret_tx.send(true);
        }
    }
    // wait for clients and auxiliary tasks (all of them are bounded by their own patience)
    loop {
        let all = client_ids.iter().chain(aux.iter()).all(|id| sched::is_done(*id));
        if all {
            break;
        }
        tokio::time::sleep(Duration::from_millis(500)).await;
        if sched::now_ns() > 4_000_000_000_000 {
            break;
        }
    }
    slog!("driver done");
    for l in &listeners {
        let g = l.lock().unwrap();
        run_mut(|r| {
            for (c, q) in &g.accepted_conns {
                r.os_accepted.insert(*c, *q);
            }
        });
    }
    drop(ret_tx);
}

/// Tolerance on every timing clause ("promptly", "once idle", "within the timeout"): simulated
/// scheduling costs no simulated time, so 0 would do on the current tree; 20 ms leaves room for an
/// implementation that, say, polls on a short interval, and is far below the smallest timeout (50 ms).
const SLACK_NS: u64 = 20_000_000;

fn viol(inv: &str, sig: String, detail: String) -> Violation {
    Violation { property: "C16".into(), invariant: inv.into(), signature: sig, detail }
}

fn evaluate(script: &Script, run: &Run, out: &mut RunOut) {
    for p in &run.unexpected_panics {
        out.violations.push(viol("no-panic", "panic".into(), p.clone()));
    }
    // 6. a request never receives another request's id; responses are well-formed
    for (ci, c) in run.conns.iter().enumerate() {
        for (id, res, _) in &c.results {
            if let ClientResult::Response(st, body) = res {
                if *st != 200 || body != &format!("id={id}") {
                    out.violations.push(viol("own-response", "wrong response".into(), format!("conn{ci} req{id} got status {st} body {body:?}")));
                }
                out.count("responses_ok", 1);
            }
        }
    }
    let Some(sd) = &script.shutdown else {
        // no shutdown: every fault-free full request is answered
        for (ci, c) in run.conns.iter().enumerate() {
            let cs = &script.conns[ci];
            if cs.fault == ConnFault::None && matches!(cs.kind, ConnKind::Full | ConnKind::Delayed { .. } | ConnKind::KeepAlive { .. } | ConnKind::H2 { .. }) && !c.dropped_busy && c.connect_seq > 0 {
                let n_req = if let ConnKind::H2 { streams } = cs.kind { streams.clamp(1, 4) as u32 } else { 1 };
                let ok = (0..n_req).all(|k| c.results.iter().any(|(id, r, _)| *id == req_id(ci, k) && matches!(r, ClientResult::Response(..))));
                if !ok {
                    out.violations.push(viol("served-without-shutdown", format!("kind={:?}", kind_tag(&cs.kind)), format!("conn{ci}: no shutdown was requested, yet the request got {:?}", c.results)));
                }
            }
        }
        return;
    };
    let Some((call_seq, call_ns)) = run.t_call else { return };
    let graceful_timeout_ns = match sd.mode {
        Mode::Graceful { timeout_ms } => Some(timeout_ms.saturating_mul(1_000_000)),
        Mode::Forced => None,
    };
    // Effective mode as seen by the acceptor: the first command to reach it wins; with a second
    // concurrent call of a different mode, either may be first — then only mode-independent
    // invariants are checked.
    let ambiguous = match (&sd.second, run.second_call) {
        (Some((_, m2)), Some(_)) => *m2 != sd.mode,
        _ => false,
    };
    let second_called_first = matches!(run.second_call, Some((s, _)) if s < call_seq);
    // 3/4. bounded resolution
    match run.t_ret {
        None if run.caller_gone.is_some() => {
            // The caller went away before the shutdown had completed. Nobody holds the future any
            // more, but the server must behave as if somebody did: the drain goes on (checked below
            // for every class-A request) and awaiting a clone of the handle resolves when the server
            // has really stopped — not before a handler that was running at the call has finished
            // (unless the timeout has elapsed), not after the timeout.
            if let (Some(to), true) = (graceful_timeout_ns, sd.waiter && !ambiguous && !second_called_first) {
                match run.waiter_ret {
                    None => out.violations.push(viol("await-handle-resolves", "waiter never resolved (caller gone)".into(), "the caller dropped the shutdown future; awaiting a clone of the handle never resolved".into())),
                    Some((_, t)) => {
                        out.count("probe_waiter_resolved_after_the_caller_had_gone", 1);
                        if t > call_ns.saturating_add(to).saturating_add(SLACK_NS) {
                            out.violations.push(viol("bounded-resolution", "server outlived the timeout (caller gone)".into(), format!("graceful shutdown with timeout {} ms: the handle resolved {} ns after the call", to / 1_000_000, t - call_ns)));
                        }
                        let still_running = run.reqs.values().any(|r| matches!(r.handler_start, Some((s, _)) if s < call_seq) && !r.panicked && r.handler_end.map(|(_, e)| e > t + SLACK_NS).unwrap_or(false));
                        if still_running && t + SLACK_NS < call_ns.saturating_add(to) {
                            out.violations.push(viol("await-handle-resolves", "waiter early (caller gone)".into(), format!("the caller dropped the shutdown future; awaiting the handle resolved {} ns after the call while a handler that was running at the call was still running (it logged its end later) and the timeout had not elapsed", t - call_ns)));
                        }
                    }
                }
            }
        }
        None => {
            out.violations.push(viol("shutdown-resolves", format!("mode={}", mode_tag(&sd.mode)), "the shutdown future did not resolve".into()));
        }
        Some((_ret_seq, ret_ns)) => {
            let took = ret_ns - call_ns;
            if !ambiguous && !second_called_first {
                match graceful_timeout_ns {
                    Some(to) => {
                        if took > to.saturating_add(SLACK_NS) {
                            out.violations.push(viol("bounded-resolution", "graceful exceeded timeout".into(), format!("graceful shutdown with timeout {} ms resolved after {} ns", to / 1_000_000, took)));
                        }
                        if took.saturating_add(SLACK_NS) >= to {
                            out.count("probe_timeout_elapsed", 1);
                        }
                    }
                    None => {
                        if took > SLACK_NS {
                            out.violations.push(viol("forced-prompt", "forced waited".into(), format!("forced shutdown resolved after {took} ns")));
                        }
                        let inflight = run.reqs.values().any(|r| matches!(r.handler_start, Some((s, _)) if s < call_seq) && !matches!(r.handler_end, Some((s, _)) if s < call_seq));
                        if inflight {
                            out.count("probe_forced_with_inflight", 1);
                        }
                    }
                }
            }
        }
    }
    // 5. awaiting the handle / a second call resolve
    if let Some((_, ret_ns)) = run.t_ret {
        if let Some((t0, t1)) = run.late_waiter {
            out.count("probe_handle_awaited_after_stop", 1);
            match t1 {
                None => out.violations.push(viol("await-handle-resolves", "late waiter never resolved".into(), "a clone of the handle, awaited for the first time after the shutdown call had returned, never resolved".into())),
                Some(t1) if t1 - t0 > SLACK_NS => out.violations.push(viol("await-handle-resolves", "late waiter late".into(), format!("a clone of the handle awaited after the server had stopped took {} ns to resolve", t1 - t0))),
                _ => {}
            }
        }
        if sd.waiter {
            match run.waiter_ret {
                None => out.violations.push(viol("await-handle-resolves", "waiter never resolved".into(), "awaiting a clone of the handle never resolved".into())),
                Some((_, t)) => {
                    if t > ret_ns + SLACK_NS && run.second_ret.map(|(_, t2)| t > t2 + SLACK_NS).unwrap_or(true) {
                        out.violations.push(viol("await-handle-resolves", "waiter late".into(), format!("awaiting the handle resolved {} ns after shutdown returned", t - ret_ns)));
                    }
                    // awaiting the handle means waiting for the server to shut down: it must not
                    // resolve while the first call's drain is still going on
                    if t + SLACK_NS < ret_ns && !ambiguous && !second_called_first && matches!(sd.mode, Mode::Graceful { .. }) {
                        out.violations.push(viol("await-handle-resolves", "waiter early".into(), format!("awaiting the handle resolved {} ns before the graceful shutdown had completed", ret_ns - t)));
                    }
                    if t + SLACK_NS < call_ns && run.second_call.map(|(_, t2)| t + SLACK_NS < t2).unwrap_or(true) {
                        out.violations.push(viol("await-handle-resolves", "waiter early".into(), "awaiting the handle resolved before any shutdown call".into()));
                    }
                    out.count("probe_waiter_resolved", 1);
                }
            }
        }
        // Observation only (the property speaks of one call): a Forced call issued while a Graceful
        // drain is in progress is not read by the acceptor until the drain ends.
        if let (Some((_, Mode::Forced)), Some((_, c2)), Some((_, r2)), Mode::Graceful { .. }) = (&sd.second, run.second_call, run.second_ret, &sd.mode) {
            if r2 > c2 + SLACK_NS && c2 >= call_ns {
                out.count("observation_forced_second_call_waited_for_graceful_drain", 1);
            }
        }
        if sd.second.is_some() && run.second_call.is_some() {
            match run.second_ret {
                None => out.violations.push(viol("second-call-resolves", "second never resolved".into(), "a second shutdown() call never resolved".into())),
                Some(_) => out.count("probe_second_call_resolved", 1),
            }
        }
    }
    if ambiguous || second_called_first {
        out.count("probe_ambiguous_mode_skipped", 1);
        return;
    }
    let Some(timeout_ns) = graceful_timeout_ns else { return };
    // 1. no new connections after the shutdown future resolved
    if let Some((ret_seq, _)) = run.t_ret {
        for (ci, c) in run.conns.iter().enumerate() {
            if c.connect_seq > ret_seq {
                out.count("probe_connect_after_return", 1);
                if c.refused {
                    out.count("probe_refused_after_return", 1);
                }
                let reached = run.reqs.get(&req_id(ci, 0)).map(|r| r.handler_start.is_some()).unwrap_or(false);
                if reached || c.dispatched_seq.is_some() {
                    out.violations.push(viol("no-new-connections", format!("refused={}", c.refused), format!("conn{ci} connected after graceful shutdown had resolved and was still served (dispatched={:?})", c.dispatched_seq)));
                }
            } else if c.connect_seq > call_seq {
                out.count("probe_connect_between_call_and_return", 1);
            }
        }
    }
    // 1b. after the call no new connection is accepted: simulated time moves only when no thread
    // is runnable, so a connection attempt made at a strictly later instant than the call finds
    // an acceptor that has processed the command — the listener must be closed (refused) or at
    // least must not hand the connection out.
    for (ci, c) in run.conns.iter().enumerate() {
        if c.connect_seq > call_seq && c.connect_ns > call_ns {
            out.count("probe_connect_strictly_after_call", 1);
            if let Some(q) = run.os_accepted.get(&ci) {
                out.violations.push(viol("no-accept-after-call", format!("accepted while draining refused={}", c.refused), format!("conn{ci} connected at {} ns, after shutdown(Graceful) had been called at {} ns, and accept() still handed it out (seq {q})", c.connect_ns, call_ns)));
            }
        }
    }
    // Blocking handlers keep a whole worker thread from doing anything, including serving other
    // connections and reading the shutdown command: a request can only be promised an answer if
    // all the blocking in the run plus its own handler fits the timeout (which worker a connection
    // lands on is not modelled, so the bound is over the whole run).
    // (every request of an HTTP/2 burst runs the blocking handler once)
    let total_blocking_ms: u64 = script
        .conns
        .iter()
        .filter(|c| c.fault == ConnFault::BlockingHandler)
        .map(|c| c.handler_ms.saturating_mul(if let ConnKind::H2 { streams } = c.kind { streams.clamp(1, 4) as u64 } else { 1 }))
        .fold(0u64, |a, b| a.saturating_add(b));
    let blocking_fits = |own_ms: u64| total_blocking_ms.saturating_add(own_ms).saturating_mul(1_000_000).saturating_add(SLACK_NS) < timeout_ns;
    // 2. drain: class-A requests get their answer
    let mut stalled_mid_request = false;
    for (ci, c) in run.conns.iter().enumerate() {
        let cs = &script.conns[ci];
        if c.connect_seq == 0 || c.connect_seq > call_seq {
            continue;
        }
        if let ConnKind::HalfHeaders { .. } = cs.kind {
            stalled_mid_request = true;
        }
        if matches!(cs.fault, ConnFault::StalledReader) {
            stalled_mid_request = true;
        }
        let Some(p) = &c.pipes else { continue };
        let c2s = p.c2s.lock().unwrap();
        let first_poll = c2s.first_read_poll_seq;
        let head_read_before_call = c2s.read_marks.iter().any(|(s, tot)| *s < call_seq && *tot as usize >= c.req_len);
        let never_polled_before_call = first_poll.map(|s| s > call_seq).unwrap_or(true);
        // HTTP/2: which of the burst's HEADERS frames the server had consumed before the call
        let h2_read_before_call: Vec<bool> = c.h2_ends.iter().map(|end| c2s.read_marks.iter().any(|(s, tot)| *s < call_seq && *tot as usize >= *end)).collect();
        drop(c2s);
        let dispatched_before = matches!(c.dispatched_seq, Some(s) if s < call_seq);
        let written_before = matches!(c.req_written, Some((s, _)) if s < call_seq);
        if dispatched_before && !never_polled_before_call && !head_read_before_call && written_before {
            out.count("probe_unread_bytes_on_served_connection_at_call", 1);
        }
        if matches!(c.accepted_seq, Some(s) if s < call_seq) && !dispatched_before {
            out.count("probe_accepted_not_dispatched_at_call", 1);
        }
        let class_a = dispatched_before
            && written_before
            && !c.dropped_busy
            && matches!(cs.fault, ConnFault::None | ConnFault::BlockingHandler)
            && matches!(cs.kind, ConnKind::Full | ConnKind::Delayed { .. } | ConnKind::KeepAlive { .. } | ConnKind::H2 { .. })
            && (cs.handler_ms * 1_000_000).saturating_add(SLACK_NS) < timeout_ns
            && (never_polled_before_call || head_read_before_call)
            && (total_blocking_ms == 0 || blocking_fits(if cs.fault == ConnFault::BlockingHandler { 0 } else { cs.handler_ms }));
        if !class_a {
            continue;
        }
        out.count("class_a_requests", 1);
        let queued = never_polled_before_call;
        if queued {
            out.count("probe_shutdown_overtook_queued_connection", 1);
        } else if run.reqs.get(&req_id(ci, 0)).map(|r| !matches!(r.handler_end, Some((s, _)) if s < call_seq)).unwrap_or(false) {
            out.count("probe_shutdown_with_handler_in_flight", 1);
        }
        // HTTP/2: every request of the burst whose HEADERS frame had been consumed before the call (all
        // of them if the connection had not been polled at all) is owed an answer; blocking handlers
        // on one connection serialise, which the `blocking_fits` bound above does not model per stream
        let n_req = if let ConnKind::H2 { streams } = cs.kind { streams.clamp(1, 4) as u32 } else { 1 };
        if n_req > 1 {
            out.count("probe_h2_class_a_with_concurrent_streams", 1);
        }
        if matches!(cs.kind, ConnKind::H2 { .. }) {
            out.count("class_a_h2_connections", 1);
        }
        for k in 0..n_req {
        if k > 0 && !(queued || h2_read_before_call.get(k as usize).copied().unwrap_or(false)) {
            continue;
        }
        if k > 0 && cs.fault == ConnFault::BlockingHandler && !blocking_fits(0) {
            continue;
        }
        let id0 = req_id(ci, k);
        let got = c.results.iter().find(|(id, _, _)| *id == id0).map(|(_, r, _)| r);
        let ok = matches!(got, Some(ClientResult::Response(200, b)) if b == &format!("id={id0}"));
        if !ok {
            let started = run.reqs.get(&id0).map(|r| r.handler_start.is_some()).unwrap_or(false);
            let sig = format!(
                "drain state={} handler_started={} got={}",
                if queued { "queued-never-polled-before-call" } else { "request-read-before-call" },
                started,
                match got {
                    None => "nothing".to_string(),
                    Some(ClientResult::Closed(0)) => "closed-without-bytes".into(),
                    Some(ClientResult::Closed(_)) => "closed-mid-response".into(),
                    Some(ClientResult::TimedOut(_)) => "timed-out".into(),
                    Some(ClientResult::Response(..)) => "wrong-response".into(),
                    Some(r) => format!("{r:?}"),
                }
            );
            out.violations.push(viol(
                "drain",
                sig,
                format!(
                    "conn{ci} req{id0} (handler {} ms, timeout {} ms) had been dispatched to a worker (seq {:?}) and fully written (seq {:?}) before shutdown(Graceful) was called (seq {call_seq}) but got {:?}",
                    cs.handler_ms,
                    timeout_ns / 1_000_000,
                    c.dispatched_seq,
                    c.req_written.map(|x| x.0),
                    got
                ),
            ));
        }
        }
    }
    // 3a. … and not before: if the future resolved before the timeout had elapsed, no handler may
    // have been running at that moment (a handler that logged its end after the resolution was).
    if let Some((ret_seq, ret_ns)) = run.t_ret {
        if (ret_ns - call_ns).saturating_add(SLACK_NS) < timeout_ns {
            for (id, r) in &run.reqs {
                if let (Some((s, _)), Some((e, _))) = (r.handler_start, r.handler_end) {
                    if s < ret_seq && e > ret_seq {
                        out.violations.push(viol("resolves-not-before-idle", "handler still running".into(), format!("graceful shutdown resolved {} ns after the call (timeout {} ms) while the handler of req{id} was still running", ret_ns - call_ns, timeout_ns / 1_000_000)));
                        break;
                    }
                }
            }
            out.count("probe_resolved_before_timeout", 1);
        }
    }
    // 3b. resolves once all workers are idle
    if let Some((_, ret_ns)) = run.t_ret {
        if !stalled_mid_request {
            let last_end = run.reqs.values().filter_map(|r| r.handler_end.map(|(_, t)| t)).max().unwrap_or(0);
            // handlers that were still running when the future resolved (timeout) do not count
            let bound = call_ns.max(last_end.min(ret_ns)) + SLACK_NS;
            let running_at_ret = run.reqs.values().any(|r| r.handler_start.is_some() && !r.panicked && r.handler_end.map(|(_, t)| t > ret_ns).unwrap_or(true));
            // responses may be blocked on a client that reads slowly (small pipes + delays are all ≤ slack)
            if ret_ns > bound && !running_at_ret {
                out.violations.push(viol("resolves-when-idle", "late".into(), format!("all handlers had finished by {last_end} ns, shutdown was called at {call_ns} ns, but it resolved at {ret_ns} ns")));
            }
            out.count("probe_idle_resolution_checked", 1);
        }
    }
}

fn kind_tag(k: &ConnKind) -> &'static str {
    match k {
        ConnKind::H2 { .. } => "h2",
        ConnKind::Full => "full",
        ConnKind::Delayed { .. } => "delayed",
        ConnKind::HalfHeaders { .. } => "half",
        ConnKind::Silent => "silent",
        ConnKind::KeepAlive { .. } => "keepalive",
    }
}

fn mode_tag(m: &Mode) -> &'static str {
    match m {
        Mode::Forced => "forced",
        Mode::Graceful { .. } => "graceful",
    }
}

pub fn execute(script: &Script, tape: &mut Tape, keep_log: bool) -> RunOut {
    crate::quiet_panics();
    let _ = crate::take_panics();
    crate::seams::set_clock_ns(crate::seams::EPOCH_S * 1_000_000_000, 0);
    crate::seams::set_entropy(Some(1));
    RUN.with(|r| {
        *r.borrow_mut() = Run::default();
    });
    run_mut(|r| {
        for _ in 0..script.conns.len() {
            r.conns.push(ConnRec {
                peer: SocketAddr::from(([0, 0, 0, 0], 0)),
                connect_seq: 0,
                connect_ns: 0,
                refused: false,
                accepted_seq: None,
                dispatched_seq: None,
                dropped_busy: false,
                kickoff_seq: None,
                req_written: None,
                req_len: 0,
                h2_ends: Vec::new(),
                results: Vec::new(),
                pipes: None,
            });
        }
    });
    let my_tape = std::mem::replace(tape, Tape::replay(vec![]));
    sched::install(my_tape, EventLog::new(keep_log), 200_000);
    sched::with(|s| {
        s.weights = script.weights.clone();
        s.preempt_den = script.preempt_den;
    });
    pavex::server::sim::install(pavex::server::sim::Hooks {
        spawn_thread: Box::new(|name, body| {
            sched::spawn(&name, true, move || body());
        }),
        preempt: Box::new(|l| sched::preempt(l)),
        event: Box::new(on_event),
    });
    let rt = sched::runtime();
    let sc = script.clone();
    let res = std::panic::catch_unwind(std::panic::AssertUnwindSafe(|| {
        rt.block_on(async move {
            let main = sched::spawn("driver", false, move || Box::pin(driver(sc)));
            sched::root(main).await;
        });
    }));
    let sim_ns;
    let inner = {
        let _g = rt.enter();
        sim_ns = sched::now_ns();
        pavex::server::sim::uninstall();
        sched::uninstall()
    };
    drop(rt);
    crate::seams::clear_clock();
    crate::seams::set_entropy(None);
    *tape = inner.tape;
    let mut out = RunOut::new(inner.log);
    out.sim_ns = sim_ns;
    for (k, v) in &inner.counters {
        out.count(k, *v);
    }
    if inner.overflow {
        simcore::driver::harness_error("srvsim: step cap exceeded");
    }
    let mut run = RUN.with(|r| std::mem::take(&mut *r.borrow_mut()));
    if res.is_err() {
        run.unexpected_panics.push("panic escaped the simulated system".into());
    }
    run.unexpected_panics.extend(crate::take_panics().into_iter().filter(|m| !m.contains(PANIC_MARK)));
    evaluate(script, &run, &mut out);
    // abstract state: what each connection looked like when the shutdown call was made
    if let (Some(sd), Some((call_seq, _))) = (&script.shutdown, run.t_call) {
        let mut q = 0;
        let mut mid = 0;
        let mut idle = 0;
        let mut unacc = 0;
        for (ci, c) in run.conns.iter().enumerate() {
            if c.connect_seq == 0 || c.connect_seq > call_seq {
                continue;
            }
            let started = run.reqs.get(&req_id(ci, 0)).and_then(|r| r.handler_start).map(|(s, _)| s < call_seq).unwrap_or(false);
            let ended = run.reqs.get(&req_id(ci, 0)).and_then(|r| r.handler_end).map(|(s, _)| s < call_seq).unwrap_or(false);
            let polled = c.pipes.as_ref().and_then(|p| p.c2s.lock().unwrap().first_read_poll_seq).map(|s| s < call_seq).unwrap_or(false);
            if !matches!(c.dispatched_seq, Some(s) if s < call_seq) {
                unacc += 1;
            } else if !polled {
                q += 1;
            } else if started && !ended {
                mid += 1;
            } else {
                idle += 1;
            }
        }
        out.states.push(format!("{}|w{}|queued{}|mid{}|idle{}|undispatched{}", mode_tag(&sd.mode), script.workers, q.min(3), mid.min(3), idle.min(3), unacc.min(3)));
        out.nontrivial = q + mid + idle + unacc > 0;
    } else {
        out.nontrivial = !run.conns.is_empty();
    }
    if run.conns.iter().any(|c| c.dropped_busy) {
        out.count("probe_all_workers_busy_drop", 1);
    }
    out
}

fn gen_mode(rng: &mut Rng) -> Mode {
    if rng.chance(1, 5) {
        Mode::Forced
    } else {
        Mode::Graceful { timeout_ms: *rng.pick(&[50, 200, 200, 1000, 1000, 5000, 60_000, 60_000, u64::MAX]) }
    }
}

impl Sim for SrvSim {
    type Script = Script;
    fn name() -> &'static str {
        "srvsim"
    }
    fn properties() -> &'static [&'static str] {
        &["C16"]
    }
    fn runs(_p: &str, tier: Tier) -> u64 {
        match tier {
            Tier::Quick => 100_000,
            Tier::Thorough => 5_000_000,
        }
    }
    fn meta(_p: &str) -> SimMeta {
        SimMeta {
            rule: "Each run draws workers 1-4, listeners 1-2, 0-12 connections (full request at connect time, delayed request, half-sent headers, silent, keep-alive with a second request; handler durations 0, << timeout, ~timeout±3ms, >> timeout; client faults), a shutdown call at a seeded instant (Forced or Graceful 50 ms-60 s, optionally a second concurrent call and a task awaiting a cloned handle), connection attempts after the call has returned, per-thread scheduling weights (to starve a thread) and a preemption rate. Rare arms: overload, drain window, many live connections on one worker, queued burst, 2-3 workers blocked beyond the timeout (blocking request + 15 fillers per worker, since dispatch only moves on when an inbox is full), 70-130 requests sent to one blocked worker, and a caller that drops the shutdown future while a request is mid-handler (the task awaiting a clone of the handle is then judged against the drain). The choice tape decides which simulated thread is polled at every step and how many other threads run at each hooked preemption point. Non-trivial: at least one connection existed when shutdown was called. Distinct: distinct hash of the sequence of (thread polled, preemption label) events.".into(),
            real: vec!["pavex Server, ServerHandle, Acceptor, Worker (runtime/pavex/src/server/*)".into(), "hyper 1.x HTTP/1 connection state machine".into(), "hyper-util auto::Builder + GracefulShutdown".into(), "tokio mpsc/oneshot/watch channels, LocalSet, JoinSet, timers (paused clock)".into()],
            stub: vec!["OS threads → simulated threads (nested LocalSets polled by the seeded scheduler)".into(), "TCP listener and sockets → in-memory pipes (cfg(pavex_verif) seam)".into(), "clients → raw HTTP/1.1 simulator tasks".into(), "wall clock and OS entropy → libc-level seams".into()],
            assumptions: vec!["threads interleave at awaits and at the hooked synchronous preemption points, not between arbitrary instructions".into(), "class A ('received before the call') = dispatched to a worker and fully written before the call, and either never polled by the worker yet (queued) or its head already read; bytes that reach an already-served idle connection but are still unread when the worker processes the shutdown are hyper's documented idle-connection race and are only counted (probe_unread_bytes_on_served_connection_at_call)".into(), "HTTP/1.1 (hand-written client) and HTTP/2 with prior knowledge (hand-written client: preface, SETTINGS, HEADERS with END_STREAM, PING/SETTINGS acknowledgements; no flow-control pressure, no CONTINUATION, no request bodies)".into()],
            fault_counters: vec!["fault_accept_emfile_armed".into(), "fault_blocking_handler".into(), "fault_client_disconnect_after_request".into(), "fault_client_disconnect_mid_response".into(), "fault_stalled_reader".into(), "fault_handler_panic".into(), "preemptions_taken".into()],
            expected_probes: vec!["probe_all_workers_busy_drop".into(), "probe_shutdown_overtook_queued_connection".into(), "probe_shutdown_with_handler_in_flight".into(), "probe_timeout_elapsed".into(), "probe_connect_after_return".into(), "probe_forced_with_inflight".into(), "probe_waiter_resolved".into(), "probe_second_call_resolved".into(), "class_a_requests".into()],
        }
    }

    fn generate(rng: &mut Rng, _tier: Tier, _p: &str) -> Script {
        let workers = rng.usize(1, 4);
        let listeners = if rng.chance(1, 5) { 2 } else { 1 };
        let shutdown = if rng.chance(1, 12) {
            None
        } else {
            let mode = gen_mode(rng);
            Some(ShutdownScript {
                at_ns: *rng.pick(&[0, 1_000, 20_000, 100_000, 1_000_000, 30_000_000]) + rng.below(20_000),
                mode,
                second: if rng.chance(1, 6) { Some((rng.below(40_000), gen_mode(rng))) } else { None },
                waiter: rng.chance(1, 3),
                late_waiter: None,
                cancel_after_ns: None,
            })
        };
        let timeout_ms = match &shutdown {
            Some(ShutdownScript { mode: Mode::Graceful { timeout_ms }, .. }) => *timeout_ms,
            _ => 200,
        };
        let timeout_ms = if timeout_ms == u64::MAX { 500 } else { timeout_ms };
        let at = shutdown.as_ref().map(|s| s.at_ns).unwrap_or(50_000);
        let n = match rng.below(10) {
            0 => 0,
            1..=4 => rng.usize(1, 2),
            5..=7 => rng.usize(3, 6),
            8 => rng.usize(7, 12),
            _ => rng.usize(1, 12),
        };
        let mut conns = Vec::new();
        for _ in 0..n {
            let when = if shutdown.is_some() && rng.chance(1, 8) {
                When::AfterShutdownReturned { ns: rng.below(30_000) }
            } else {
                // cluster around the shutdown call
                let ns = match rng.below(6) {
                    0 => 0,
                    1 => at.saturating_sub(rng.below(30_000)),
                    2 => at + rng.below(30_000),
                    3 => at.saturating_sub(rng.below(200)),
                    _ => rng.below(at + 1),
                };
                When::At { ns }
            };
            let kind = match rng.below(10) {
                0..=4 => ConnKind::Full,
                5 => ConnKind::Delayed { delay_ns: rng.below(40_000) },
                6 => ConnKind::HalfHeaders { n: rng.usize(1, 40) },
                7 => ConnKind::Silent,
                _ => ConnKind::KeepAlive { gap_ns: rng.below(60_000) },
            };
            let handler_ms = match rng.below(8) {
                0 | 1 => 0,
                2 | 3 => rng.range(1, 20).min(timeout_ms / 3),
                4 => timeout_ms.saturating_sub(*rng.pick(&[3, 30])),
                5 => timeout_ms + *rng.pick(&[3, 30]),
                6 => timeout_ms * 10,
                _ => rng.range(0, timeout_ms),
            };
            let fault = match rng.below(16) {
                0 => ConnFault::DisconnectAfterRequest,
                1 => ConnFault::DisconnectMidResponse { after: rng.usize(1, 60) },
                2 => ConnFault::HandlerPanic,
                3 => ConnFault::StalledReader,
                4 => ConnFault::BlockingHandler,
                _ => ConnFault::None,
            };
            let cap_in = *rng.pick(&[65_536, 65_536, 4096, 512, 64, 7, 1]);
            let cap_out = if fault == ConnFault::StalledReader { *rng.pick(&[16, 64]) } else { *rng.pick(&[65_536, 65_536, 4096, 64, 3]) };
            conns.push(ConnScript { when, kind, handler_ms, fault, cap_in, cap_out, listener: rng.usize(0, 1) });
        }
        // drain-window arm: a request is mid-handler when graceful shutdown is called and other
        // clients keep connecting while the drain lasts
        if let Some(ShutdownScript { mode: Mode::Graceful { timeout_ms }, at_ns, .. }) = &shutdown {
            if rng.chance(1, 4) {
                let at_ms = at_ns / 1_000_000 + 1;
                let hold = (*timeout_ms).min(2_000).max(4);
                let h = rng.range(3, hold.saturating_sub(1).max(3)).min(60);
                conns.push(ConnScript { when: When::At { ns: 0 }, kind: ConnKind::Full, handler_ms: at_ms + h, fault: ConnFault::None, cap_in: 65_536, cap_out: 65_536, listener: 0 });
                for _ in 0..rng.usize(1, 3) {
                    let k = rng.range(1, h.max(1));
                    conns.push(ConnScript { when: When::At { ns: (at_ms + k) * 1_000_000 }, kind: ConnKind::Full, handler_ms: 0, fault: ConnFault::None, cap_in: 65_536, cap_out: 65_536, listener: rng.usize(0, 1) });
                }
            }
        }
        let mut weights = Vec::new();
        match rng.below(6) {
            0 => weights.push(("pavex-worker".to_string(), 1)),
            1 => weights.push(("pavex-acceptor".to_string(), 1)),
            2 => weights.push(("client".to_string(), 1)),
            3 => {
                weights.push(("pavex-worker-0".to_string(), 1));
                weights.push(("driver".to_string(), 32));
            }
            _ => {}
        }
        // overload arm: more connections than the workers' inboxes can hold while the workers are
        // starved, so that the acceptor has to move on to the next worker / drop connections
        if rng.chance(1, 40) {
            let workers = rng.usize(1, 2);
            let n = workers * 15 + rng.usize(1, 6);
            let conns = (0..n)
                .map(|_| ConnScript { when: When::At { ns: 0 }, kind: ConnKind::Full, handler_ms: rng.range(0, 3), fault: ConnFault::None, cap_in: 65_536, cap_out: 65_536, listener: 0 })
                .collect();
            let weights = vec![("pavex-worker".to_string(), 1), ("pavex-acceptor".to_string(), 64), ("client".to_string(), 24), ("driver".to_string(), 1)];
            return Script { workers, listeners: 1, conns, shutdown, weights, preempt_den: 1000, net_preempt: false, accept_errors: None };
        }
        let mut sc = Script { workers, listeners, conns, shutdown, weights, preempt_den: *rng.pick(&[3, 4, 8, 8, 16, 1000]), net_preempt: rng.chance(1, 3), accept_errors: None };
        // last draws (the rest of the script is the same function of the seed as before this arm
        // existed): one plain connection in five speaks HTTP/2 with 1-4 concurrent requests
        for c in sc.conns.iter_mut() {
            if matches!(c.kind, ConnKind::Full) && matches!(c.fault, ConnFault::None | ConnFault::BlockingHandler | ConnFault::DisconnectAfterRequest) && rng.chance(1, 5) {
                c.kind = ConnKind::H2 { streams: *rng.pick(&[1, 1, 2, 3, 4]) };
            }
        }
        // ... and one run in ten runs out of file descriptors around the time some connection arrives
        // (often the one that precedes the shutdown call)
        if !sc.conns.is_empty() && rng.chance(1, 10) {
            let at = match &sc.conns[rng.usize(0, sc.conns.len() - 1)].when {
                When::At { ns } => *ns,
                When::AfterShutdownReturned { .. } => sc.shutdown.as_ref().map(|s| s.at_ns).unwrap_or(0),
            };
            sc.accept_errors = Some((at.saturating_sub(*rng.pick(&[0u64, 0, 1_000_000])), *rng.pick(&[1u32, 40, 300, 1000])));
        }
        if let Some(sd) = sc.shutdown.as_mut() {
            if rng.chance(1, 4) {
                sd.late_waiter = Some(*rng.pick(&[0u64, 1_000, 1_000_000, 50_000_000]));
            }
        }
        // ... and one run in four hundred keeps MANY connections alive on one worker: 257-262 requests
        // mid-handler when graceful shutdown is called, and a few more that arrived just before the call
        if rng.chance(1, 400) {
            let n = 257 + rng.usize(0, 5);
            let hold = rng.range(80, 200);
            let mut conns: Vec<ConnScript> = (0..n)
                .map(|i| ConnScript { when: When::At { ns: i as u64 * 5_000 }, kind: ConnKind::Full, handler_ms: hold, fault: ConnFault::None, cap_in: 65_536, cap_out: 65_536, listener: 0 })
                .collect();
            let t_more = n as u64 * 5_000 + 1_000_000;
            for j in 0..rng.usize(2, 4) {
                conns.push(ConnScript { when: When::At { ns: t_more + j as u64 * 5_000 }, kind: ConnKind::Full, handler_ms: rng.range(0, 2), fault: ConnFault::None, cap_in: 65_536, cap_out: 65_536, listener: 0 });
            }
            let shutdown = Some(ShutdownScript { at_ns: t_more + 3_000_000, mode: Mode::Graceful { timeout_ms: 60_000 }, second: None, waiter: false, late_waiter: None, cancel_after_ns: None });
            return Script { workers: 1, listeners: 1, conns, shutdown, weights: Vec::new(), preempt_den: 1000, net_preempt: false, accept_errors: None };
        }
        // ... and one run in fifty is a QUEUED BURST: every worker is stuck in a blocking handler while
        // 8-14 complete requests per worker pile up in its inbox, and graceful shutdown is called before
        // any of them has been started — each of them had been received before the call
        if rng.chance(1, 50) {
            let workers = rng.usize(1, 2);
            let hold = rng.range(20, 60);
            let mut conns: Vec<ConnScript> = (0..workers)
                .map(|_| ConnScript { when: When::At { ns: 0 }, kind: ConnKind::Full, handler_ms: hold, fault: ConnFault::BlockingHandler, cap_in: 65_536, cap_out: 65_536, listener: 0 })
                .collect();
            let q = rng.usize(8, 14) * workers;
            for _ in 0..q {
                conns.push(ConnScript { when: When::At { ns: 1_000_000 + rng.below(1_000_000) }, kind: ConnKind::Full, handler_ms: rng.range(0, 2), fault: ConnFault::None, cap_in: 65_536, cap_out: 65_536, listener: 0 });
            }
            let shutdown = Some(ShutdownScript { at_ns: 5_000_000 + rng.below(5_000_000), mode: Mode::Graceful { timeout_ms: *rng.pick(&[5_000, 10_000, 60_000]) }, second: None, waiter: rng.chance(1, 3), late_waiter: None, cancel_after_ns: None });
            return Script { workers, listeners: 1, conns, shutdown, weights: Vec::new(), preempt_den: *rng.pick(&[4, 8, 1000]), net_preempt: false, accept_errors: None };
        }
        // ... and one run in a hundred BLOCKS TWO OR THREE WORKERS for longer than the timeout: dispatch
        // only moves on to the next worker when an inbox is full, so the first blocking request is
        // followed by 15 fillers (they fill the blocked worker's inbox) and the next blocking request
        // lands on the next worker; the graceful timeout must bound the whole shutdown, not each worker
        if rng.chance(1, 100) {
            let workers = rng.usize(2, 3);
            let timeout_ms = *rng.pick(&[50u64, 200, 600]);
            let hold = timeout_ms * (workers as u64 + 1) + rng.range(10, 50);
            let mut conns: Vec<ConnScript> = Vec::new();
            let mut t = 0u64;
            for _ in 0..workers {
                conns.push(ConnScript { when: When::At { ns: t }, kind: ConnKind::Full, handler_ms: hold, fault: ConnFault::BlockingHandler, cap_in: 65_536, cap_out: 65_536, listener: 0 });
                t += 1_000_000;
                for _ in 0..15 {
                    conns.push(ConnScript { when: When::At { ns: t + rng.below(200_000) }, kind: ConnKind::Full, handler_ms: 0, fault: ConnFault::None, cap_in: 65_536, cap_out: 65_536, listener: 0 });
                }
                t += 1_000_000;
            }
            let shutdown = Some(ShutdownScript { at_ns: t + 2_000_000 + rng.below(1_000_000), mode: Mode::Graceful { timeout_ms }, second: None, waiter: rng.chance(1, 2), late_waiter: None, cancel_after_ns: None });
            return Script { workers, listeners: 1, conns, shutdown, weights: Vec::new(), preempt_den: *rng.pick(&[8, 1000]), net_preempt: false, accept_errors: None };
        }
        // ... and one run in four hundred sends ONE blocked worker far more complete requests than an
        // inbox holds today (70-130): whatever is accepted into the inbox before the call had been
        // received before the call and is owed an answer, however large the inbox is
        if rng.chance(1, 400) {
            let hold = rng.range(20, 60);
            let mut conns = vec![ConnScript { when: When::At { ns: 0 }, kind: ConnKind::Full, handler_ms: hold, fault: ConnFault::BlockingHandler, cap_in: 65_536, cap_out: 65_536, listener: 0 }];
            for _ in 0..rng.usize(70, 130) {
                conns.push(ConnScript { when: When::At { ns: 1_000_000 + rng.below(2_000_000) }, kind: ConnKind::Full, handler_ms: rng.range(0, 2), fault: ConnFault::None, cap_in: 65_536, cap_out: 65_536, listener: 0 });
            }
            let shutdown = Some(ShutdownScript { at_ns: 6_000_000 + rng.below(5_000_000), mode: Mode::Graceful { timeout_ms: *rng.pick(&[10_000, 60_000]) }, second: None, waiter: false, late_waiter: None, cancel_after_ns: None });
            return Script { workers: rng.usize(1, 2), listeners: 1, conns, shutdown, weights: Vec::new(), preempt_den: 1000, net_preempt: false, accept_errors: None };
        }
        // ... and one graceful shutdown in eight is abandoned by its caller while a request is mid-handler
        if let Some(sd) = sc.shutdown.as_mut() {
            if let Mode::Graceful { timeout_ms } = sd.mode {
                if timeout_ms >= 200 && timeout_ms != u64::MAX && rng.chance(1, 8) {
                    let at_ms = sd.at_ns / 1_000_000 + 1;
                    let h = rng.range(30, (timeout_ms - 20).min(400));
                    sd.cancel_after_ns = Some(*rng.pick(&[0u64, 1_000, 1_000_000, 10_000_000, 25_000_000]));
                    sd.waiter = true;
                    sd.second = None;
                    sd.late_waiter = None;
                    sc.conns.push(ConnScript { when: When::At { ns: 0 }, kind: ConnKind::Full, handler_ms: at_ms + h, fault: ConnFault::None, cap_in: 65_536, cap_out: 65_536, listener: 0 });
                }
            }
        }
        sc
    }

    fn run(script: &Script, tape: &mut Tape, keep_log: bool) -> RunOut {
        execute(script, tape, keep_log)
    }

    fn shrink(s: &Script) -> Vec<Script> {
        let mut c = Vec::new();
        if let Some((at, n)) = s.accept_errors {
            let mut t = s.clone();
            t.accept_errors = None;
            c.push(t);
            if n > 1 {
                let mut t = s.clone();
                t.accept_errors = Some((at, n / 2));
                c.push(t);
            }
        }
        for i in 0..s.conns.len() {
            if let ConnKind::H2 { streams } = s.conns[i].kind {
                let mut t = s.clone();
                t.conns[i].kind = if streams > 1 { ConnKind::H2 { streams: streams - 1 } } else { ConnKind::Full };
                c.push(t);
            }
        }
        for i in 0..s.conns.len() {
            let mut t = s.clone();
            t.conns.remove(i);
            c.push(t);
        }
        if s.workers > 1 {
            let mut t = s.clone();
            t.workers = 1;
            c.push(t);
        }
        if s.listeners > 1 {
            let mut t = s.clone();
            t.listeners = 1;
            c.push(t);
        }
        if let Some(sd) = &s.shutdown {
            if sd.second.is_some() {
                let mut t = s.clone();
                t.shutdown.as_mut().unwrap().second = None;
                c.push(t);
            }
            if sd.late_waiter.is_some() {
                let mut t = s.clone();
                t.shutdown.as_mut().unwrap().late_waiter = None;
                c.push(t);
            }
            if sd.waiter {
                let mut t = s.clone();
                t.shutdown.as_mut().unwrap().waiter = false;
                c.push(t);
            }
            if sd.at_ns > 0 {
                let mut t = s.clone();
                t.shutdown.as_mut().unwrap().at_ns = sd.at_ns / 2;
                c.push(t);
            }
        }
        if !s.weights.is_empty() {
            let mut t = s.clone();
            t.weights.clear();
            c.push(t);
        }
        if s.net_preempt {
            let mut t = s.clone();
            t.net_preempt = false;
            c.push(t);
        }
        for i in 0..s.conns.len() {
            let cs = &s.conns[i];
            if cs.kind != ConnKind::Full {
                let mut t = s.clone();
                t.conns[i].kind = ConnKind::Full;
                c.push(t);
            }
            if cs.fault != ConnFault::None {
                let mut t = s.clone();
                t.conns[i].fault = ConnFault::None;
                c.push(t);
            }
            if cs.handler_ms > 0 {
                let mut t = s.clone();
                t.conns[i].handler_ms = 0;
                c.push(t);
            }
            if cs.cap_in != 65_536 || cs.cap_out != 65_536 {
                let mut t = s.clone();
                t.conns[i].cap_in = 65_536;
                t.conns[i].cap_out = 65_536;
                c.push(t);
            }
            if let When::At { ns } = cs.when {
                if ns > 0 {
                    let mut t = s.clone();
                    t.conns[i].when = When::At { ns: 0 };
                    c.push(t);
                }
            }
        }
        c
    }
}
