mod bodysim;
mod gate;
mod net;
mod sched;
mod seams;
mod sessim;
mod srvsim;
mod storesim;

thread_local! {
    static PANICS: std::cell::RefCell<Vec<String>> = const { std::cell::RefCell::new(Vec::new()) };
}

/// Panics inside the system under test are caught by the simulators; keep stderr quiet and keep
/// the messages.
pub fn quiet_panics() {
    static ONCE: std::sync::Once = std::sync::Once::new();
    ONCE.call_once(|| {
        std::panic::set_hook(Box::new(|info| {
            let msg = info.to_string();
            PANICS.with(|p| p.borrow_mut().push(msg.lines().take(3).collect::<Vec<_>>().join(" | ")));
        }));
    });
}

pub fn take_panics() -> Vec<String> {
    PANICS.with(|p| std::mem::take(&mut *p.borrow_mut()))
}

fn main() {
    let args: Vec<String> = std::env::args().skip(1).collect();
    let sim = args.first().map(|s| s.as_str()).unwrap_or("");
    match sim {
        "srvsim" => simcore::main_for::<srvsim::SrvSim>(&args[1..]),
        "sessim" => simcore::main_for::<sessim::SesSim>(&args[1..]),
        "storesim" => simcore::main_for::<storesim::StoreSim>(&args[1..]),
        "bodysim" => simcore::main_for::<bodysim::BodySim>(&args[1..]),
        _ => {
            eprintln!("usage: rt <bodysim|srvsim|sessim|storesim> check|batch|replay …");
            std::process::exit(2)
        }
    }
}
