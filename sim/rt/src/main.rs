mod bodysim;
mod net;
mod sched;
mod seams;
mod srvsim;

fn main() {
    let args: Vec<String> = std::env::args().skip(1).collect();
    let sim = args.first().map(|s| s.as_str()).unwrap_or("");
    match sim {
        "srvsim" => simcore::main_for::<srvsim::SrvSim>(&args[1..]),
        "bodysim" => simcore::main_for::<bodysim::BodySim>(&args[1..]),
        _ => {
            eprintln!("usage: rt <bodysim|srvsim|sessim|storesim> check|batch|replay …");
            std::process::exit(2)
        }
    }
}
