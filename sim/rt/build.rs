fn main() {
    // Wrap sqlite3_step in the harness binary only (see src/gate.rs): references to
    // `sqlite3_step` from sqlx resolve to `__wrap_sqlite3_step`, defined by the harness.
    println!("cargo:rustc-link-arg-bins=-Wl,--wrap=sqlite3_step");
    println!("cargo:rustc-link-arg-bins=-Wl,--wrap=sqlite3_unlock_notify");
    println!("cargo:rustc-link-arg-bins=-Wl,--wrap=sqlite3_reset");
    println!("cargo:rustc-link-arg-bins=-Wl,--wrap=sqlite3_finalize");
    println!("cargo:rustc-link-arg-bins=-Wl,--wrap=sqlite3_extended_errcode");
    println!("cargo:rerun-if-changed=build.rs");
}
