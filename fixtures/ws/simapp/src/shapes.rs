//! Ownership shapes that are VALID but make the borrow checker of pavexc work for it.
use pavex::Response;

/// Diamond that can only be solved by cloning: `C(A, &B)`, `D(&A, B)`, both clonable.
pub mod by_clone {
    use pavex::Response;
    #[derive(Clone)]
    pub struct A;
    #[derive(Clone)]
    pub struct B;
    pub struct C;
    pub struct D;
    #[pavex::request_scoped(id = "DC_A", clone_if_necessary)]
    pub fn a() -> A {
        A
    }
    #[pavex::request_scoped(id = "DC_B", clone_if_necessary)]
    pub fn b() -> B {
        B
    }
    #[pavex::request_scoped(id = "DC_C")]
    pub fn c(_a: A, _b: &B) -> C {
        C
    }
    #[pavex::request_scoped(id = "DC_D")]
    pub fn d(_a: &A, _b: B) -> D {
        D
    }
    #[pavex::get(path = "/shapes/clone", id = "DC_HANDLER")]
    pub fn handler(_c: C, _d: D) -> Response {
        Response::ok()
    }
}

/// Crossed diamond where one corner is `Copy` (no clone needed for it) and the other is neither
/// `Copy` nor `Clone`: `C(A, &B)`, `D(&A, B)` with `A: Copy`.
pub mod by_copy {
    use pavex::Response;
    #[derive(Clone, Copy)]
    pub struct A;
    pub struct B;
    pub struct C;
    pub struct D;
    #[pavex::request_scoped(id = "DY_A")]
    pub fn a() -> A {
        A
    }
    #[pavex::request_scoped(id = "DY_B")]
    pub fn b() -> B {
        B
    }
    #[pavex::request_scoped(id = "DY_C")]
    pub fn c(_a: A, _b: &B) -> C {
        C
    }
    #[pavex::request_scoped(id = "DY_D")]
    pub fn d(_a: &A, _b: B) -> D {
        D
    }
    #[pavex::get(path = "/shapes/copy", id = "DY_HANDLER")]
    pub fn handler(_c: C, _d: D) -> Response {
        Response::ok()
    }
}

/// Two fallible singletons whose constructors have the SAME callable name in different modules
/// and different error types (the generated `ApplicationStateError` must disambiguate them).
pub mod first {
    pub struct One(pub u8);
    #[derive(Debug, thiserror::Error)]
    #[error("first")]
    pub struct FirstError;
    #[pavex::singleton(id = "COLLIDE_FIRST")]
    pub fn new() -> Result<One, FirstError> {
        Ok(One(1))
    }
}
pub mod second {
    pub struct Two(pub u8);
    #[derive(Debug, thiserror::Error)]
    #[error("second")]
    pub struct SecondError;
    #[pavex::singleton(id = "COLLIDE_SECOND")]
    pub fn new() -> Result<Two, SecondError> {
        Ok(Two(2))
    }
}

#[pavex::get(path = "/shapes/collide", id = "COLLIDE_HANDLER")]
pub fn collide(one: &first::One, two: &second::Two) -> Response {
    Response::ok().set_typed_body(format!("{}{}", one.0, two.0))
}

/// One `clone_if_necessary` value taken BY VALUE by three constructors, two of which feed a fallible
/// constructor: the consumers that compete for the value are {B, C, D} on the happy path and
/// {B, C} on the path through the error handler — overlapping, not identical, sets.
pub mod fanout {
    use pavex::Response;
    #[derive(Clone)]
    pub struct A;
    pub struct B;
    pub struct C;
    pub struct D;
    pub struct X;
    #[derive(Debug)]
    pub struct XError;
    #[pavex::request_scoped(id = "FO_A", clone_if_necessary)]
    pub fn a() -> A {
        A
    }
    #[pavex::request_scoped(id = "FO_B")]
    pub fn b(_a: A) -> B {
        B
    }
    #[pavex::request_scoped(id = "FO_C")]
    pub fn c(_a: A) -> C {
        C
    }
    #[pavex::request_scoped(id = "FO_D")]
    pub fn d(_a: A) -> D {
        D
    }
    #[pavex::request_scoped(id = "FO_X")]
    pub fn x(_b: B, _c: C) -> Result<X, XError> {
        Ok(X)
    }
    #[pavex::error_handler(id = "FO_X_ERROR")]
    pub fn x_error(#[px(error_ref)] _e: &XError) -> Response {
        Response::internal_server_error()
    }
    #[pavex::get(path = "/shapes/fanout", id = "FO_HANDLER")]
    pub fn handler(_x: X, _d: D) -> Response {
        Response::ok()
    }
}

/// Three generic constructors whose output types OVERLAP: `Wrapper<Option<Vec<u8>>>` can be built by
/// any of them (T = Option<Vec<u8>>, T = Vec<u8>, T = u8); which one is picked must not depend on
/// anything but the order of registration.
pub mod generics {
    use pavex::Response;
    pub struct Wrapper<V>(pub V);
    #[pavex::request_scoped(id = "GW_ANY")]
    pub fn any<T>() -> Wrapper<T> {
        todo!()
    }
    #[pavex::request_scoped(id = "GW_OPTIONAL")]
    pub fn optional<T>() -> Wrapper<Option<T>> {
        todo!()
    }
    #[pavex::request_scoped(id = "GW_LIST")]
    pub fn list<T>() -> Wrapper<Option<Vec<T>>> {
        todo!()
    }
    #[pavex::get(path = "/shapes/generics", id = "GW_HANDLER")]
    pub fn handler(_w: Wrapper<Option<Vec<u8>>>) -> Response {
        Response::ok()
    }
}

/// Singletons whose types only differ in a NESTED generic argument: `Arc<Mutex<Counter>>` and
/// `Arc<Mutex<Cache>>`. Both become fields of the generated `ApplicationState` and need distinct,
/// stable names.
pub mod state_nested_generics {
    use pavex::Response;
    use std::sync::{Arc, Mutex};
    pub struct Counter(pub u64);
    pub struct Cache(pub u64);
    #[pavex::singleton(id = "NG_COUNTER")]
    pub fn counter() -> Arc<Mutex<Counter>> {
        Arc::new(Mutex::new(Counter(0)))
    }
    #[pavex::singleton(id = "NG_CACHE")]
    pub fn cache() -> Arc<Mutex<Cache>> {
        Arc::new(Mutex::new(Cache(0)))
    }
    #[pavex::get(path = "/shapes/state/nested", id = "NG_HANDLER")]
    pub fn handler(_a: &Arc<Mutex<Counter>>, _b: &Arc<Mutex<Cache>>) -> Response {
        Response::ok()
    }
}

/// Singletons `Pool<a::Marker>` and `Pool<b::Marker>`: same base type, generic arguments with the
/// same last path segment.
pub mod state_same_name_generics {
    use pavex::Response;
    pub struct Pool<T>(pub std::marker::PhantomData<T>);
    pub mod a {
        pub struct Marker;
    }
    pub mod b {
        pub struct Marker;
    }
    #[pavex::singleton(id = "SN_A")]
    pub fn pool_a() -> Pool<a::Marker> {
        Pool(Default::default())
    }
    #[pavex::singleton(id = "SN_B")]
    pub fn pool_b() -> Pool<b::Marker> {
        Pool(Default::default())
    }
    #[pavex::get(path = "/shapes/state/samename", id = "SN_HANDLER")]
    pub fn handler(_a: &Pool<a::Marker>, _b: &Pool<b::Marker>) -> Response {
        Response::ok()
    }
}

/// Array-typed singletons that differ in their length only, next to a scalar of the element type.
pub mod state_arrays {
    use pavex::Response;
    #[pavex::singleton(id = "ARR_4")]
    pub fn four() -> [u8; 4] {
        [0; 4]
    }
    #[pavex::singleton(id = "ARR_8")]
    pub fn eight() -> [u8; 8] {
        [0; 8]
    }
    #[pavex::singleton(id = "ARR_SCALAR")]
    pub fn scalar() -> u8 {
        0
    }
    #[pavex::get(path = "/shapes/state/arrays", id = "ARR_HANDLER")]
    pub fn handler(_a: &[u8; 4], _b: &[u8; 8], _c: &u8) -> Response {
        Response::ok()
    }
}

/// `union` types as components: a singleton (thread-safety checks) and a `clone_if_necessary`
/// request-scoped value taken by value twice (the `Clone` check).
pub mod unions {
    use pavex::Response;
    #[derive(Clone, Copy)]
    pub union Bits {
        pub a: u32,
        pub b: f32,
    }
    #[pavex::singleton(id = "UN_BITS")]
    pub fn bits() -> Bits {
        Bits { a: 0 }
    }
    #[pavex::get(path = "/shapes/union", id = "UN_HANDLER")]
    pub fn handler(_a: &Bits) -> Response {
        Response::ok()
    }
    #[derive(Clone, Copy)]
    pub union Word {
        pub a: u16,
        pub b: i16,
    }
    pub struct Left;
    pub struct Right;
    #[pavex::request_scoped(id = "UN_WORD", clone_if_necessary)]
    pub fn word() -> Word {
        Word { a: 0 }
    }
    #[pavex::request_scoped(id = "UN_LEFT")]
    pub fn left(_w: Word) -> Left {
        Left
    }
    #[pavex::request_scoped(id = "UN_RIGHT")]
    pub fn right(_w: Word) -> Right {
        Right
    }
    #[pavex::get(path = "/shapes/union/word", id = "UN_WORD_HANDLER")]
    pub fn word_handler(_l: Left, _r: Right) -> Response {
        Response::ok()
    }
}

/// Four values that are each CONSUMED by one constructor and BORROWED by another in the same call
/// graph, the consumers listed after the borrowers: several nodes are parked in the same pass of the
/// ordering algorithm, and the order in which they are taken up again decides statement order and
/// variable numbering of the generated handler.
pub mod consume_and_borrow {
    use pavex::Response;
    macro_rules! triple {
        ($m:ident, $a:literal, $x:literal, $y:literal) => {
            pub mod $m {
                pub struct A;
                pub struct X;
                pub struct Y;
                #[pavex::request_scoped(id = $a)]
                pub fn a() -> A {
                    A
                }
                #[pavex::request_scoped(id = $x)]
                pub fn x(_a: A) -> X {
                    X
                }
                #[pavex::request_scoped(id = $y)]
                pub fn y(_a: &A) -> Y {
                    Y
                }
            }
        };
    }
    triple!(p0, "CB_A0", "CB_X0", "CB_Y0");
    triple!(p1, "CB_A1", "CB_X1", "CB_Y1");
    triple!(p2, "CB_A2", "CB_X2", "CB_Y2");
    triple!(p3, "CB_A3", "CB_X3", "CB_Y3");
    #[pavex::get(path = "/shapes/consume_and_borrow", id = "CB_HANDLER")]
    #[allow(clippy::too_many_arguments)]
    pub fn handler(_y0: p0::Y, _x0: p0::X, _y1: p1::Y, _x1: p1::X, _y2: p2::Y, _x2: p2::X, _y3: p3::Y, _x3: p3::X) -> Response {
        Response::ok()
    }
}

/// A singleton that is a function pointer whose RETURN type is the only mention of another crate
/// (`simdep`) in the whole blueprint: codegen has to spell the type out as a field of `ApplicationState`.
pub mod fn_pointer_state {
    use pavex::Response;
    fn make() -> simdep::types::Widget {
        simdep::types::Widget(0)
    }
    #[pavex::singleton(id = "FP_FACTORY")]
    pub fn factory() -> fn() -> simdep::types::Widget {
        make
    }
    #[pavex::get(path = "/shapes/fn_pointer", id = "FP_HANDLER")]
    pub fn handler(_f: &fn() -> simdep::types::Widget) -> Response {
        Response::ok()
    }
}
