//! The blueprint corpus. `v*` are expected to be accepted, `x*` to be rejected by pavexc.
//! `all()` is what `bpdump` writes out through `Blueprint::persist`.
use crate::bad;
use crate::core as k;
use crate::mw;
use crate::obs;
use crate::routes::{admin, misc, users};
use pavex::blueprint::from;
use pavex::Blueprint;

pub fn all() -> Vec<(&'static str, Blueprint)> {
    vec![
        ("v01_min", v01_min()),
        ("v02_flat", v02_flat()),
        ("v03_nested", v03_nested()),
        ("v04_deep", v04_deep()),
        ("v05_domains", v05_domains()),
        ("v06_dep", v06_dep()),
        ("v07_mw_order", v07_mw_order()),
        ("v08_explicit", v08_explicit()),
        ("v09_observers", v09_observers()),
        ("v10_state", v10_state()),
        ("v11_flat_permuted", v11_flat_permuted()),
        ("v12_fallbacks", v12_fallbacks()),
        ("v13_diamonds", v13_diamonds()),
        ("v14_state_collision", v14_state_collision()),
        ("v15_prefix_param_fallback", v15_prefix_param_fallback()),
        ("v16_prefix_param_suffix_fallback", v16_prefix_param_suffix_fallback()),
        ("v17_prefix_param_infix_fallback", v17_prefix_param_infix_fallback()),
        ("x01_missing", x01_missing()),
        ("x02_missing_transitive", x02_missing_transitive()),
        ("x03_cycle", x03_cycle()),
        ("x04_lifecycle", x04_lifecycle()),
        ("x05_overlap", x05_overlap()),
        ("x06_pathparam", x06_pathparam()),
        ("x07_noclone", x07_noclone()),
        ("x08_observer", x08_observer()),
        ("x09_unit", x09_unit()),
        ("x10_mutref", x10_mutref()),
        ("x11_generic", x11_generic()),
        ("x12_prefix", x12_prefix()),
        ("x13_domain", x13_domain()),
        ("x14_two_at_once", x14_two_at_once()),
        ("x15_many_at_once", x15_many_at_once()),
        ("x16_nested_override", x16_nested_override()),
        ("x17_borrowck", x17_borrowck()),
        ("x18_two_diamonds", x18_two_diamonds()),
        ("x19_one_diamond", x19_one_diamond()),
        ("x20_observer_cycle", x20_observer_cycle()),
        ("x21_singleton_two_scopes", x21_singleton_two_scopes()),
        ("v18_clone_fanout", v18_clone_fanout()),
        ("x22_same_diamond_twice", x22_same_diamond_twice()),
        ("x23_prefix_trailing_slash", x23_prefix_trailing_slash()),
        ("x24_unit_fallback", x24_unit_fallback()),
        ("v19_overlapping_generics", v19_overlapping_generics()),
        ("x25_unicode_route_conflict", x25_unicode_route_conflict()),
        ("x26_self_cycle", x26_self_cycle()),
        ("x27_self_cycle_transient", x27_self_cycle_transient()),
        ("v20_state_nested_generics", v20_state_nested_generics()),
        ("v21_state_same_name_generics", v21_state_same_name_generics()),
        ("v22_state_arrays", v22_state_arrays()),
        ("v23_unions", v23_unions()),
        ("x28_config_key_keyword", x28_config_key_keyword()),
        ("x29_included_fragment", x29_included_fragment()),
        ("x30_nested_override_cycle", x30_nested_override_cycle()),
        ("x31_unbounded_specialisation", x31_unbounded_specialisation()),
        ("v24_consume_and_borrow_pairs", v24_consume_and_borrow_pairs()),
        ("v25_fn_pointer_foreign_return", v25_fn_pointer_foreign_return()),
        ("x32_error_handler_cycle", x32_error_handler_cycle()),
        ("x33_multibyte_prefix", x33_multibyte_prefix()),
    ]
}

fn base() -> Blueprint {
    let mut bp = Blueprint::new();
    bp.import(from![pavex, crate::core, simdep]);
    bp
}

pub fn v01_min() -> Blueprint {
    let mut bp = Blueprint::new();
    bp.route(misc::PING);
    bp
}

pub fn v02_flat() -> Blueprint {
    let mut bp = base();
    bp.import(from![crate::mw, crate::routes]);
    bp.wrap(mw::TIMEOUT_MW);
    bp.wrap(mw::LOG_MW);
    bp.pre_process(mw::RATE_PRE);
    bp.pre_process(mw::AUTH_PRE);
    bp.post_process(mw::HEADER_POST);
    bp.post_process(mw::COMPRESS_POST);
    bp.error_observer(obs::LOG_ERROR);
    bp.error_observer(obs::COUNT_ERROR);
    bp.routes(from![crate::routes::users, crate::routes::misc]);
    bp.prefix("/admin").routes(from![crate::routes::admin]);
    bp.routes(from![simdep]);
    bp
}

pub fn v03_nested() -> Blueprint {
    let mut bp = base();
    bp.import(from![crate::mw, crate::routes]);
    bp.wrap(mw::LOG_MW);
    bp.error_observer(obs::LOG_ERROR);
    bp.prefix("/api").nest({
        let mut bp = Blueprint::new();
        bp.pre_process(mw::AUTH_PRE);
        bp.routes(from![crate::routes::users]);
        bp.post_process(mw::HEADER_POST);
        bp
    });
    bp.prefix("/admin").nest({
        let mut bp = Blueprint::new();
        bp.wrap(mw::AUDIT_MW);
        bp.routes(from![crate::routes::admin]);
        bp
    });
    bp.route(misc::PING);
    bp.route(misc::TIME);
    bp.fallback(misc::ROOT_FALLBACK);
    bp
}

pub fn v04_deep() -> Blueprint {
    let mut bp = Blueprint::new();
    bp.import(from![pavex]);
    bp.config(k::DB_CONFIG);
    bp.constructor(k::DB);
    bp.constructor(k::CLOCK);
    bp.prefix("/one").nest({
        let mut bp = Blueprint::new();
        bp.constructor(k::SESSION);
        bp.error_handler(k::SESSION_ERROR_HANDLER);
        bp.constructor(k::REQ_ID);
        bp.prefix("/two").nest({
            let mut bp = Blueprint::new();
            bp.constructor(k::USER);
            bp.error_handler(k::USER_ERROR_HANDLER);
            bp.prefix("/three").nest({
                let mut bp = Blueprint::new();
                bp.constructor(k::PAGE);
                bp.route(users::GET_USER);
                bp.route(users::GET_POST);
                bp
            });
            bp.route(misc::TIME);
            bp
        });
        bp
    });
    bp.route(misc::PING);
    bp
}

pub fn v05_domains() -> Blueprint {
    let mut bp = base();
    bp.import(from![crate::routes]);
    bp.domain("admin.example.com").nest({
        let mut bp = Blueprint::new();
        bp.routes(from![crate::routes::admin]);
        bp
    });
    bp.domain("example.com").nest({
        let mut bp = Blueprint::new();
        bp.routes(from![crate::routes::misc]);
        bp
    });
    bp.domain("{tenant}.example.com").prefix("/t").nest({
        let mut bp = Blueprint::new();
        bp.route(users::GET_USER);
        bp.route(misc::PING);
        bp
    });
    bp.fallback(misc::ROOT_FALLBACK);
    bp
}

pub fn v06_dep() -> Blueprint {
    let mut bp = base();
    bp.pre_process(simdep::c::DEP_GUARD);
    bp.routes(from![simdep]);
    bp.route(admin::ADMIN_CONFIG);
    bp.route(misc::TOKEN);
    bp.route(misc::BADGE);
    bp
}

pub fn v07_mw_order() -> Blueprint {
    let mut bp = base();
    bp.import(from![crate::mw]);
    bp.post_process(mw::COMPRESS_POST);
    bp.pre_process(mw::RATE_PRE);
    bp.wrap(mw::LOG_MW);
    bp.route(misc::TIME);
    bp.wrap(mw::TIMEOUT_MW);
    bp.pre_process(mw::AUTH_PRE);
    bp.post_process(mw::HEADER_POST);
    bp.nest({
        let mut bp = Blueprint::new();
        bp.wrap(mw::AUDIT_MW);
        bp.route(misc::PING);
        bp.post_process(mw::HEADER_POST);
        bp
    });
    bp.route(misc::TOKEN);
    bp
}

pub fn v08_explicit() -> Blueprint {
    let mut bp = Blueprint::new();
    bp.import(from![pavex]);
    bp.config(k::SERVER_CONFIG).never_clone();
    bp.config(k::DB_CONFIG).include_if_unused();
    bp.prebuilt(k::BUILD_INFO).clone_if_necessary();
    bp.prebuilt(k::STARTUP_BANNER);
    bp.constructor(k::CLOCK).never_clone();
    bp.constructor(k::METRICS);
    bp.constructor(k::REQ_ID)
        .lifecycle(pavex::blueprint::Lifecycle::RequestScoped);
    bp.route(admin::ADMIN_STATS);
    bp.route(misc::TIME);
    bp.fallback(admin::ADMIN_FALLBACK);
    bp
}

pub fn v09_observers() -> Blueprint {
    let mut bp = base();
    bp.import(from![crate::routes]);
    bp.error_observer(obs::COUNT_ERROR);
    bp.error_observer(obs::LOG_ERROR);
    bp.route(users::CREATE_USER);
    bp.route(users::DELETE_USER);
    bp.route(misc::TOKEN);
    bp
}

pub fn v10_state() -> Blueprint {
    let mut bp = base();
    bp.route(admin::ADMIN_STATS);
    bp.route(admin::ADMIN_CONFIG);
    bp.route(simdep::c::DEP_HEALTH);
    bp
}

/// Same components as `v02_flat`, registered in another order.
pub fn v11_flat_permuted() -> Blueprint {
    let mut bp = Blueprint::new();
    bp.routes(from![simdep]);
    bp.prefix("/admin").routes(from![crate::routes::admin]);
    bp.routes(from![crate::routes::misc, crate::routes::users]);
    bp.error_observer(obs::COUNT_ERROR);
    bp.error_observer(obs::LOG_ERROR);
    bp.post_process(mw::COMPRESS_POST);
    bp.post_process(mw::HEADER_POST);
    bp.pre_process(mw::AUTH_PRE);
    bp.pre_process(mw::RATE_PRE);
    bp.wrap(mw::LOG_MW);
    bp.wrap(mw::TIMEOUT_MW);
    bp.import(from![crate::routes, crate::mw]);
    bp.import(from![simdep, crate::core, pavex]);
    bp
}

pub fn v12_fallbacks() -> Blueprint {
    let mut bp = base();
    bp.prefix("/admin").nest({
        let mut bp = Blueprint::new();
        bp.route(admin::ADMIN_STATS);
        bp.fallback(admin::ADMIN_FALLBACK);
        bp
    });
    bp.prefix("/misc").nest({
        let mut bp = Blueprint::new();
        bp.route(misc::PING);
        bp.route(misc::TIME);
        bp
    });
    bp.fallback(misc::ROOT_FALLBACK);
    bp
}

pub fn x01_missing() -> Blueprint {
    let mut bp = base();
    bp.route(misc::PING);
    bp.route(bad::missing::NEEDS_ORPHAN);
    bp
}

pub fn x02_missing_transitive() -> Blueprint {
    let mut bp = base();
    bp.import(from![crate::bad::missing]);
    bp.route(bad::missing::NEEDS_HALF);
    bp
}

pub fn x03_cycle() -> Blueprint {
    let mut bp = base();
    bp.import(from![crate::bad::cycle]);
    bp.route(misc::PING);
    bp.route(bad::cycle::NEEDS_CYCLE);
    bp
}

pub fn x04_lifecycle() -> Blueprint {
    let mut bp = base();
    bp.import(from![crate::bad::lifecycle]);
    bp.route(bad::lifecycle::NEEDS_GLOBAL);
    bp
}

pub fn x05_overlap() -> Blueprint {
    let mut bp = base();
    bp.routes(from![crate::bad::overlap]);
    bp.route(misc::PING);
    bp
}

pub fn x06_pathparam() -> Blueprint {
    let mut bp = base();
    bp.routes(from![crate::bad::pathparam]);
    bp
}

pub fn x07_noclone() -> Blueprint {
    let mut bp = base();
    bp.import(from![crate::bad::noclone]);
    bp.route(bad::noclone::NEEDS_HEAVY);
    bp
}

pub fn x08_observer() -> Blueprint {
    let mut bp = base();
    bp.import(from![crate::bad::observer]);
    bp.error_observer(bad::observer::FRAGILE_OBSERVER);
    bp.route(bad::observer::NEEDS_FRAGILE);
    bp
}

pub fn x09_unit() -> Blueprint {
    let mut bp = base();
    bp.constructor(bad::unit::UNIT);
    bp.constructor(bad::unit::PLAIN)
        .error_handler(bad::unit::PLAIN_ERROR_HANDLER);
    bp.route(bad::unit::NEEDS_PLAIN);
    bp.route(bad::unit::NO_RESPONSE);
    bp
}

pub fn x10_mutref() -> Blueprint {
    let mut bp = base();
    bp.import(from![crate::bad::mutref]);
    bp.route(bad::mutref::NEEDS_BUMPED);
    bp
}

pub fn x11_generic() -> Blueprint {
    let mut bp = base();
    bp.import(from![crate::bad::generic]);
    bp.route(bad::generic::NEEDS_BOXED);
    bp
}

pub fn x12_prefix() -> Blueprint {
    let mut bp = base();
    bp.prefix("api/").nest({
        let mut bp = Blueprint::new();
        bp.route(misc::PING);
        bp
    });
    bp.prefix("").nest({
        let mut bp = Blueprint::new();
        bp.route(misc::TIME);
        bp
    });
    bp
}

pub fn x13_domain() -> Blueprint {
    let mut bp = base();
    bp.domain("not a domain!").nest({
        let mut bp = Blueprint::new();
        bp.route(misc::PING);
        bp
    });
    bp.domain("example.com").nest({
        let mut bp = Blueprint::new();
        bp.route(misc::TIME);
        bp
    });
    // Mixing domain-restricted and domain-agnostic routes is forbidden.
    bp.route(misc::TOKEN);
    bp
}

pub fn x14_two_at_once() -> Blueprint {
    let mut bp = base();
    bp.import(from![crate::bad::cycle, crate::bad::lifecycle]);
    bp.route(bad::cycle::NEEDS_CYCLE);
    bp.route(bad::lifecycle::NEEDS_GLOBAL);
    bp.route(misc::PING);
    bp
}

pub fn x15_many_at_once() -> Blueprint {
    let mut bp = base();
    bp.import(from![crate::bad, crate::mw, crate::routes]);
    bp.error_observer(bad::observer::FRAGILE_OBSERVER);
    bp.error_observer(bad::observer::NON_UNIT_OBSERVER);
    bp.wrap(mw::AUDIT_MW);
    bp.routes(from![crate::bad, crate::routes::users]);
    bp
}

pub fn x16_nested_override() -> Blueprint {
    let mut bp = base();
    bp.route(misc::TIME);
    bp.nest({
        let mut bp = Blueprint::new();
        // Overriding a singleton of the parent in a nested scope is an error.
        bp.constructor(k::CLOCK);
        bp.route(admin::ADMIN_STATS);
        bp
    });
    bp
}

/// A handler consumes by value a singleton that may never be cloned.
pub fn x17_borrowck() -> Blueprint {
    let mut bp = Blueprint::new();
    bp.import(from![pavex]);
    bp.prebuilt(k::BUILD_INFO).never_clone();
    bp.prebuilt(k::STARTUP_BANNER);
    bp.constructor(k::CLOCK).never_clone();
    bp.constructor(k::METRICS);
    bp.route(admin::ADMIN_STATS);
    bp.fallback(admin::ADMIN_FALLBACK);
    bp
}

/// Valid ownership diamonds: one needs clones, one relies on a `Copy` corner.
pub fn v13_diamonds() -> Blueprint {
    let mut bp = Blueprint::new();
    bp.import(from![pavex, crate::shapes::by_clone, crate::shapes::by_copy]);
    bp.route(crate::shapes::by_clone::DC_HANDLER);
    bp.route(crate::shapes::by_copy::DY_HANDLER);
    bp.route(misc::PING);
    bp
}

/// Two fallible singleton constructors with the same callable name.
pub fn v14_state_collision() -> Blueprint {
    let mut bp = base();
    bp.import(from![crate::shapes::first, crate::shapes::second]);
    bp.route(crate::shapes::COLLIDE_HANDLER);
    bp.route(misc::PING);
    bp
}

/// A clone-solvable diamond and an unsolvable one in the same handler graph.
pub fn x18_two_diamonds() -> Blueprint {
    let mut bp = Blueprint::new();
    bp.import(from![pavex, crate::bad::diamonds]);
    bp.route(bad::diamonds::TD_HANDLER);
    bp
}

pub fn x19_one_diamond() -> Blueprint {
    let mut bp = Blueprint::new();
    bp.import(from![pavex, crate::bad::diamonds]);
    bp.route(bad::diamonds::OD_HANDLER);
    bp
}

/// A dependency cycle plus an error observer that depends on a type of the cycle.
pub fn x20_observer_cycle() -> Blueprint {
    let mut bp = base();
    bp.import(from![crate::bad::observer_cycle]);
    bp.error_observer(bad::observer_cycle::OC_OBSERVER);
    bp.route(bad::observer_cycle::OC_HANDLER);
    bp.route(misc::PING);
    bp
}

fn nested_with_fallback_behind(prefix: &str) -> Blueprint {
    let mut bp = base();
    bp.prefix(prefix).nest({
        let mut bp = Blueprint::new();
        bp.route(admin::ADMIN_STATS);
        bp.fallback(admin::ADMIN_FALLBACK);
        bp
    });
    bp.route(misc::PING);
    bp.fallback(misc::ROOT_FALLBACK);
    bp
}

/// A nested blueprint with its own fallback behind a prefix whose last segment is a path parameter.
pub fn v15_prefix_param_fallback() -> Blueprint {
    nested_with_fallback_behind("/tenants/{tenant}")
}

/// … whose last segment ends with a path parameter.
pub fn v16_prefix_param_suffix_fallback() -> Blueprint {
    nested_with_fallback_behind("/t{tenant}")
}

/// … whose last segment holds a path parameter followed by a literal.
pub fn v17_prefix_param_infix_fallback() -> Blueprint {
    nested_with_fallback_behind("/tenants/{tenant}x")
}

/// The same singleton type constructed in the parent scope and again in a nested scope.
pub fn x21_singleton_two_scopes() -> Blueprint {
    let mut bp = Blueprint::new();
    bp.import(from![pavex]);
    bp.constructor(bad::scopes::SC_PARENT_QUOTA);
    bp.route(bad::scopes::SC_PARENT);
    bp.nest({
        let mut bp = Blueprint::new();
        bp.constructor(bad::scopes::SC_CHILD_QUOTA);
        bp.route(bad::scopes::SC_CHILD);
        bp
    });
    bp
}

/// A `clone_if_necessary` value with three by-value consumers whose competing sets overlap across
/// two control-flow paths (see `shapes::fanout`).
pub fn v18_clone_fanout() -> Blueprint {
    let mut bp = Blueprint::new();
    bp.import(from![pavex, crate::shapes::fanout]);
    bp.route(crate::shapes::fanout::FO_HANDLER);
    bp.route(misc::PING);
    bp
}

/// Two handlers over the same unsolvable ownership diamond: the same diagnostics twice.
pub fn x22_same_diamond_twice() -> Blueprint {
    let mut bp = Blueprint::new();
    bp.import(from![pavex, crate::bad::diamonds]);
    bp.route(bad::diamonds::OD_HANDLER);
    bp.route(bad::diamonds::OD_HANDLER_AGAIN);
    bp
}

/// The only problem: a path prefix that ends with a slash.
pub fn x23_prefix_trailing_slash() -> Blueprint {
    let mut bp = base();
    bp.prefix("/api/").nest({
        let mut bp = Blueprint::new();
        bp.route(misc::PING);
        bp
    });
    bp.route(misc::TIME);
    bp
}

/// A fallback handler that returns the unit type (valid Rust, not a valid fallback), next to an
/// ordinary route.
pub fn x24_unit_fallback() -> Blueprint {
    let mut bp = base();
    bp.route(misc::PING);
    bp.fallback(bad::unit::UNIT_FALLBACK);
    bp
}

/// Overlapping generic constructors (see `shapes::generics`), registered one by one.
pub fn v19_overlapping_generics() -> Blueprint {
    let mut bp = Blueprint::new();
    bp.import(from![pavex]);
    bp.constructor(crate::shapes::generics::GW_ANY);
    bp.constructor(crate::shapes::generics::GW_OPTIONAL);
    bp.constructor(crate::shapes::generics::GW_LIST);
    bp.route(crate::shapes::generics::GW_HANDLER);
    bp.route(misc::PING);
    bp
}

/// Conflicting routes whose registration lines hold multi-byte characters.
pub fn x25_unicode_route_conflict() -> Blueprint {
    let mut bp = base();
    bp.route(bad::unicode::UNI_A);
    bp.route(bad::unicode::UNI_B);
    bp
}

/// A request-scoped constructor that takes a reference to the type it builds.
pub fn x26_self_cycle() -> Blueprint {
    let mut bp = base();
    bp.constructor(bad::selfcycle::SC_CLIENT);
    bp.route(bad::selfcycle::SC_HANDLER);
    bp.route(misc::PING);
    bp
}

/// The same with a transient constructor taking its own output by value.
pub fn x27_self_cycle_transient() -> Blueprint {
    let mut bp = base();
    bp.constructor(bad::selfcycle::SC_RETRIER);
    bp.route(bad::selfcycle::SC_HANDLER_T);
    bp
}

/// Two singletons whose types differ only in a nested generic argument (`Arc<Mutex<A>>`,
/// `Arc<Mutex<B>>`): the fields of `ApplicationState` need distinct names.
pub fn v20_state_nested_generics() -> Blueprint {
    let mut bp = Blueprint::new();
    bp.import(from![pavex, crate::shapes::state_nested_generics]);
    bp.route(crate::shapes::state_nested_generics::NG_HANDLER);
    bp.route(misc::PING);
    bp
}

/// `Pool<a::Marker>` and `Pool<b::Marker>` as singletons.
pub fn v21_state_same_name_generics() -> Blueprint {
    let mut bp = Blueprint::new();
    bp.import(from![pavex, crate::shapes::state_same_name_generics]);
    bp.route(crate::shapes::state_same_name_generics::SN_HANDLER);
    bp
}

/// `[u8; 4]`, `[u8; 8]` and `u8` as singletons.
pub fn v22_state_arrays() -> Blueprint {
    let mut bp = Blueprint::new();
    bp.import(from![pavex, crate::shapes::state_arrays]);
    bp.route(crate::shapes::state_arrays::ARR_HANDLER);
    bp
}

/// `union` types as a singleton and as a `clone_if_necessary` request-scoped value.
pub fn v23_unions() -> Blueprint {
    let mut bp = Blueprint::new();
    bp.import(from![pavex, crate::shapes::unions]);
    bp.route(crate::shapes::unions::UN_HANDLER);
    bp.route(crate::shapes::unions::UN_WORD_HANDLER);
    bp
}

/// A configuration key that is a Rust keyword.
pub fn x28_config_key_keyword() -> Blueprint {
    let mut bp = Blueprint::new();
    bp.import(from![pavex]);
    bp.config(bad::keyword::KEYWORD_CONFIG);
    bp.route(bad::keyword::NEEDS_KEYWORD_CONFIG);
    bp
}

/// An invalid blueprint (a prefix without a leading slash) built in a file that is pulled in with
/// `include!` and is not a complete Rust source file: the diagnostic wants a snippet from it.
pub fn x29_included_fragment() -> Blueprint {
    include!("x29_body.rs")
}

/// A transient cycle that exists only through the nested blueprint's constructor override.
pub fn x30_nested_override_cycle() -> Blueprint {
    let mut bp = Blueprint::new();
    bp.import(from![pavex]);
    bp.constructor(bad::nested_cycle::NC_A);
    bp.constructor(bad::nested_cycle::NC_B_PARENT);
    bp.nest({
        let mut bp = Blueprint::new();
        bp.constructor(bad::nested_cycle::NC_B_NESTED);
        bp.route(bad::nested_cycle::NC_HANDLER);
        bp
    });
    bp
}

/// A generic constructor that can only be specialised by specialising itself for a bigger type.
pub fn x31_unbounded_specialisation() -> Blueprint {
    let mut bp = Blueprint::new();
    bp.import(from![pavex]);
    bp.constructor(bad::unbounded::UB_F);
    bp.route(bad::unbounded::UB_HANDLER);
    bp
}

/// Four consume-and-borrow pairs in one handler (several nodes parked in the same ordering pass).
pub fn v24_consume_and_borrow_pairs() -> Blueprint {
    let mut bp = Blueprint::new();
    bp.import(from![pavex, crate::shapes::consume_and_borrow]);
    bp.route(crate::shapes::consume_and_borrow::CB_HANDLER);
    bp
}

/// A function-pointer singleton whose return type is the blueprint's only mention of `simdep`.
pub fn v25_fn_pointer_foreign_return() -> Blueprint {
    let mut bp = Blueprint::new();
    bp.import(from![pavex]);
    bp.constructor(crate::shapes::fn_pointer_state::FP_FACTORY);
    bp.route(crate::shapes::fn_pointer_state::FP_HANDLER);
    bp
}

/// A transient cycle reachable only through what an error handler injects.
pub fn x32_error_handler_cycle() -> Blueprint {
    let mut bp = Blueprint::new();
    bp.import(from![pavex]);
    bp.constructor(bad::handler_cycle::HC_A);
    bp.constructor(bad::handler_cycle::HC_B);
    bp.error_handler(bad::handler_cycle::HC_ERROR_HANDLER);
    bp.route(bad::handler_cycle::HC_HANDLER);
    bp
}

/// A prefix without a leading slash whose text is made of multi-byte characters: the diagnostic
/// labels a span of this very line.
pub fn x33_multibyte_prefix() -> Blueprint {
    let mut bp = Blueprint::new();
    bp.import(from![pavex]);
    bp.prefix("日本語").nest({ let mut bp = Blueprint::new(); bp.route(misc::PING); bp });
    bp
}
