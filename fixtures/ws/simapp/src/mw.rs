//! Middlewares.
use crate::core::{Audit, Clock, ReqId, Session, User};
use pavex::middleware::{Next, Processing};
use pavex::Response;

#[pavex::wrap(id = "TIMEOUT_MW")]
pub async fn timeout_mw<C>(next: Next<C>, _clock: &Clock) -> Response
where
    C: std::future::IntoFuture<Output = Response>,
{
    next.await
}

#[pavex::wrap(id = "LOG_MW")]
pub async fn log_mw<C>(next: Next<C>, id: ReqId) -> Response
where
    C: std::future::IntoFuture<Output = Response>,
{
    let r = next.await;
    let _ = id.0;
    r
}

#[pavex::wrap(id = "AUDIT_MW")]
pub async fn audit_mw<C>(next: Next<C>, audit: &Audit) -> Result<Response, AuditError>
where
    C: std::future::IntoFuture<Output = Response>,
{
    if audit.0.is_empty() {
        return Err(AuditError);
    }
    Ok(next.await)
}

#[derive(Debug, thiserror::Error)]
#[error("audit failed")]
pub struct AuditError;

#[pavex::error_handler(id = "AUDIT_ERROR_HANDLER")]
pub fn audit_error_handler(_e: &AuditError) -> Response {
    Response::internal_server_error()
}

#[pavex::pre_process(id = "AUTH_PRE")]
pub fn auth_pre(user: &User) -> Result<Processing, AuthError> {
    if user.0 == "root" {
        Ok(Processing::Continue)
    } else {
        Err(AuthError)
    }
}

#[derive(Debug, thiserror::Error)]
#[error("forbidden")]
pub struct AuthError;

#[pavex::error_handler(id = "AUTH_ERROR_HANDLER")]
pub fn auth_error_handler(#[px(error_ref)] _e: &AuthError, _session: &Session) -> Response {
    Response::forbidden()
}

#[pavex::pre_process(id = "RATE_PRE")]
pub fn rate_pre(clock: &Clock) -> Processing {
    if clock.0 > 10 {
        Processing::EarlyReturn(Response::too_many_requests())
    } else {
        Processing::Continue
    }
}

#[pavex::post_process(id = "HEADER_POST")]
pub fn header_post(response: Response, id: ReqId) -> Response {
    let _ = id.0;
    response
}

#[pavex::post_process(id = "COMPRESS_POST")]
pub fn compress_post(response: Response, _clock: &Clock) -> Result<Response, CompressError> {
    Ok(response)
}

#[derive(Debug, thiserror::Error)]
#[error("compression failed")]
pub struct CompressError;

#[pavex::error_handler(id = "COMPRESS_ERROR_HANDLER")]
pub fn compress_error_handler(_e: &CompressError) -> Response {
    Response::internal_server_error()
}
