//! Constructors, configuration and prebuilt types shared by most blueprints.
use pavex::request::RequestHead;
use pavex::Response;

#[derive(Debug, Clone, serde::Deserialize)]
#[pavex::config(key = "server", id = "SERVER_CONFIG")]
pub struct ServerConfig {
    pub port: u16,
}

#[derive(Debug, Clone, Default, serde::Deserialize)]
#[pavex::config(key = "db", id = "DB_CONFIG", default_if_missing)]
pub struct DbConfig {
    pub url: String,
}

#[derive(Clone)]
#[pavex::prebuilt(id = "BUILD_INFO", clone_if_necessary)]
pub struct BuildInfo(pub &'static str);

#[pavex::prebuilt(id = "STARTUP_BANNER")]
pub struct StartupBanner(pub String);

pub struct Db(pub String);

#[pavex::singleton(id = "DB")]
pub fn db(cfg: &DbConfig) -> Result<Db, DbError> {
    if cfg.url.is_empty() {
        Err(DbError)
    } else {
        Ok(Db(cfg.url.clone()))
    }
}

#[derive(Debug, thiserror::Error)]
#[error("cannot connect")]
pub struct DbError;

#[derive(Clone)]
pub struct Clock(pub u64);

#[pavex::singleton(id = "CLOCK", clone_if_necessary)]
pub fn clock() -> Clock {
    Clock(0)
}

pub struct Metrics(pub u64);

#[pavex::singleton(id = "METRICS")]
pub fn metrics(clock: &Clock, banner: &StartupBanner) -> Metrics {
    Metrics(clock.0 + banner.0.len() as u64)
}

pub struct ReqId(pub u64);

#[pavex::transient(id = "REQ_ID")]
pub fn req_id(clock: &Clock) -> ReqId {
    ReqId(clock.0)
}

pub struct Session(pub String);

#[pavex::request_scoped(id = "SESSION")]
pub fn session(head: &RequestHead, db: &Db) -> Result<Session, SessionError> {
    match head.headers.get("cookie") {
        Some(c) => Ok(Session(format!("{}{}", db.0, c.to_str().unwrap_or_default()))),
        None => Err(SessionError::Missing),
    }
}

#[derive(Debug, thiserror::Error)]
pub enum SessionError {
    #[error("no session")]
    Missing,
}

#[pavex::error_handler(id = "SESSION_ERROR_HANDLER")]
pub fn session_error_handler(#[px(error_ref)] e: &SessionError, id: ReqId) -> Response {
    Response::unauthorized().set_typed_body(format!("{e} {}", id.0))
}

#[derive(Clone)]
pub struct User(pub String);

#[pavex::request_scoped(id = "USER", clone_if_necessary)]
pub fn user(session: &Session) -> Result<User, UserError> {
    if session.0.is_empty() {
        Err(UserError)
    } else {
        Ok(User(session.0.clone()))
    }
}

#[derive(Debug, thiserror::Error)]
#[error("unknown user")]
pub struct UserError;

#[pavex::methods]
impl UserError {
    #[pavex::error_handler(id = "USER_ERROR_HANDLER")]
    pub fn into_response(&self) -> Response {
        Response::forbidden()
    }
}

pub struct Page<T>(pub T);

/// A generic constructor: the output type carries the generic parameter.
#[pavex::request_scoped(id = "PAGE")]
pub fn page<T: Default>() -> Page<T> {
    Page(T::default())
}

pub struct Audit(pub String);

#[pavex::request_scoped(id = "AUDIT")]
pub fn audit(user: User, id: ReqId, info: &BuildInfo) -> Audit {
    Audit(format!("{}{}{}", user.0, id.0, info.0))
}
