//! Application crate of the `compsim` fixture.
//!
//! Components live in modules so that each blueprint in `bps` can import a chosen subset with
//! `from![crate::module]`. `bad::*` holds components that compile as Rust but break one of
//! pavexc's own rules; only the invalid blueprints reference them.
pub mod bad;
pub mod bps;
pub mod core;
pub mod mw;
pub mod obs;
pub mod routes;
pub mod shapes;
