use crate::core::{Audit, Db, Page, Session, User};
use pavex::request::path::PathParams;
use pavex::Response;

#[PathParams]
pub struct UserPath {
    pub user_id: u64,
}

#[PathParams]
pub struct PostPath<'a> {
    pub user_id: u64,
    pub post_id: std::borrow::Cow<'a, str>,
}

#[pavex::get(path = "/users/{user_id}", id = "GET_USER")]
pub fn get_user(params: PathParams<UserPath>, user: &User, db: &Db) -> Response {
    Response::ok().set_typed_body(format!("{}{}{}", params.0.user_id, user.0, db.0))
}

#[pavex::post(path = "/users", id = "CREATE_USER")]
pub async fn create_user(session: Session, audit: &Audit) -> Result<Response, CreateUserError> {
    if session.0 == audit.0 {
        Err(CreateUserError)
    } else {
        Ok(Response::created())
    }
}

#[derive(Debug, thiserror::Error)]
#[error("cannot create user")]
pub struct CreateUserError;

#[pavex::error_handler(id = "CREATE_USER_ERROR_HANDLER")]
pub fn create_user_error_handler(#[px(error_ref)] _e: &CreateUserError, user: User) -> Response {
    Response::conflict().set_typed_body(user.0)
}

#[pavex::get(path = "/users/{user_id}/posts/{post_id}", id = "GET_POST")]
pub fn get_post(params: &PathParams<PostPath<'_>>, page: Page<u32>, user: User) -> Response {
    Response::ok().set_typed_body(format!(
        "{}{}{}{}",
        params.0.user_id, params.0.post_id, page.0, user.0
    ))
}

#[pavex::delete(path = "/users/{user_id}", id = "DELETE_USER")]
pub fn delete_user(params: PathParams<UserPath>, user: User, audit: Audit) -> Response {
    Response::ok().set_typed_body(format!("{}{}{}", params.0.user_id, user.0, audit.0))
}
