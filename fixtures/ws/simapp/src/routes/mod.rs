//! Request handlers.
pub mod admin;
pub mod misc;
pub mod users;
