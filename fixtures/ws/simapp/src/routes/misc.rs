use crate::core::{Clock, ReqId};
use pavex::Response;

#[pavex::get(path = "/ping", id = "PING")]
pub fn ping() -> Response {
    Response::ok()
}

#[pavex::route(method = ["GET", "HEAD"], path = "/time", id = "TIME")]
pub fn time(clock: &Clock, id: ReqId) -> Response {
    Response::ok().set_typed_body(format!("{}{}", clock.0, id.0))
}

#[pavex::get(path = "/token", id = "TOKEN")]
pub fn token(token: &simdep::types::Token, widget: simdep::types::Widget) -> Response {
    Response::ok().set_typed_body(format!("{}{}", token.0, widget.0))
}

#[pavex::fallback(id = "ROOT_FALLBACK")]
pub fn root_fallback() -> Response {
    Response::not_found()
}

#[pavex::get(path = "/badge", id = "BADGE")]
pub fn badge(badge: &simdep::Badge) -> Response {
    Response::ok().set_typed_body(badge.0.to_string())
}
