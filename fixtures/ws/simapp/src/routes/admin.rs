use crate::core::{BuildInfo, Metrics, ServerConfig};
use pavex::Response;

#[pavex::get(path = "/stats", id = "ADMIN_STATS")]
pub fn stats(metrics: &Metrics, info: BuildInfo) -> Response {
    Response::ok().set_typed_body(format!("{}{}", metrics.0, info.0))
}

#[pavex::put(path = "/config/{*rest}", id = "ADMIN_CONFIG")]
pub fn put_config(cfg: &ServerConfig, thing: &simdep::types::Thing) -> Response {
    Response::ok().set_typed_body(format!("{}{}", cfg.port, thing.0))
}

#[pavex::fallback(id = "ADMIN_FALLBACK")]
pub fn admin_fallback(info: &BuildInfo) -> Response {
    Response::not_found().set_typed_body(info.0)
}
