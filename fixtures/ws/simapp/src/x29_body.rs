{
    // NOT a complete Rust source file: a block expression pulled into `bps.rs` with `include!`.
    // `#[track_caller]` locations of the registrations below name THIS file.
    let mut bp = Blueprint::new();
    bp.import(from![pavex]);
    bp.prefix("api").nest({
        let mut bp = Blueprint::new();
        bp.route(misc::PING);
        bp
    });
    bp
}
