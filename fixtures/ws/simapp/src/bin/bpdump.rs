//! Writes every blueprint of the corpus as `<out dir>/<name>.ron`, through the same
//! `Blueprint::persist` that `pavex_cli_client` uses, so the files always follow the schema of
//! the tree under test. Prints one name per line.
fn main() {
    let out: std::path::PathBuf = std::env::args()
        .nth(1)
        .expect("usage: bpdump <out dir>")
        .into();
    std::fs::create_dir_all(&out).expect("cannot create the output directory");
    for (name, bp) in simapp::bps::all() {
        bp.persist(&out.join(format!("{name}.ron")))
            .expect("cannot persist the blueprint");
        println!("{name}");
    }
}
