//! Error observers.
use crate::core::{Clock, Metrics};

#[pavex::error_observer(id = "LOG_ERROR")]
pub fn log_error(e: &pavex::Error) {
    let _ = e;
}

#[pavex::error_observer(id = "COUNT_ERROR")]
pub async fn count_error(metrics: &Metrics, clock: &Clock, e: &pavex::Error) {
    let _ = (metrics.0, clock.0, e);
}
