use pavex::request::path::PathParams;
use pavex::Response;

#[PathParams]
pub struct Wrong {
    pub item_id: u32,
    pub not_in_template: u32,
}

#[pavex::get(path = "/items/{item_id}", id = "WRONG_PARAMS")]
pub fn wrong_params(_p: PathParams<Wrong>) -> Response {
    Response::ok()
}

#[PathParams]
pub struct Unsupported {
    pub item_id: Vec<u32>,
}

#[pavex::get(path = "/unsupported/{item_id}", id = "UNSUPPORTED_PARAMS")]
pub fn unsupported_params(_p: PathParams<Unsupported>) -> Response {
    Response::ok()
}
