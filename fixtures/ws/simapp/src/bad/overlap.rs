use pavex::Response;

#[pavex::get(path = "/dup", id = "DUP_ONE")]
pub fn dup_one() -> Response {
    Response::ok()
}

#[pavex::get(path = "/dup", id = "DUP_TWO")]
pub fn dup_two() -> Response {
    Response::ok()
}

#[pavex::route(method = ["GET", "POST"], path = "/dup", id = "DUP_THREE")]
pub fn dup_three() -> Response {
    Response::ok()
}
