//! A dependency cycle among infallible request-scoped constructors AND an error observer that
//! injects a type on that cycle (two rules broken at once).
use pavex::Response;

pub struct P;
pub struct Q;
pub struct R;

#[pavex::request_scoped(id = "OC_P")]
pub fn p(_q: &Q) -> P {
    P
}
#[pavex::request_scoped(id = "OC_Q")]
pub fn q(_r: &R) -> Q {
    Q
}
#[pavex::request_scoped(id = "OC_R")]
pub fn r(_p: &P) -> R {
    R
}

#[pavex::error_observer(id = "OC_OBSERVER")]
pub fn observer(_p: &P, _e: &pavex::Error) {}

#[pavex::get(path = "/observer-cycle", id = "OC_HANDLER")]
pub fn handler(_q: &Q) -> Response {
    Response::ok()
}
