use pavex::Response;
use std::marker::PhantomData;

/// A generic constructor whose input is a BIGGER instance of its own output template:
/// `Opt<A>` needs `Opt<V<A>>`, which needs `Opt<V<V<A>>>`, ... — there is no constructor for any of them.
pub struct Opt<T>(pub PhantomData<T>);
pub struct V<T>(pub PhantomData<T>);
pub struct A;

#[pavex::request_scoped(id = "UB_F")]
pub fn f<T>(_x: Opt<V<T>>) -> Opt<T> {
    Opt(PhantomData)
}

#[pavex::get(path = "/unbounded", id = "UB_HANDLER")]
pub fn handler(_a: Opt<A>) -> Response {
    Response::ok()
}
