use pavex::Response;

/// Not `Clone`, yet marked clone-if-necessary.
pub struct Heavy;

#[pavex::singleton(id = "HEAVY", clone_if_necessary)]
pub fn heavy() -> Heavy {
    Heavy
}

pub struct HeavyReq;

#[pavex::request_scoped(id = "HEAVY_REQ", clone_if_necessary)]
pub fn heavy_req() -> HeavyReq {
    HeavyReq
}

#[pavex::get(path = "/heavy", id = "NEEDS_HEAVY")]
pub fn needs_heavy(_h: &Heavy, _r: &HeavyReq) -> Response {
    Response::ok()
}
