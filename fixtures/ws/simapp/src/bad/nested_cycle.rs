use pavex::Response;

/// A cycle of transient constructors that only exists from the NESTED blueprint's point of view:
/// the parent registers `A(B)` and an input-free `B`; the nested blueprint overrides `B` with a
/// constructor that needs `A`. Seen from the handler (nested scope): A -> B -> A -> ...
pub struct A;
pub struct B;

#[pavex::transient(id = "NC_A")]
pub fn a(_b: B) -> A {
    A
}

#[pavex::transient(id = "NC_B_PARENT")]
pub fn b_parent() -> B {
    B
}

#[pavex::transient(id = "NC_B_NESTED")]
pub fn b_nested(_a: A) -> B {
    B
}

#[pavex::get(path = "/nested_cycle", id = "NC_HANDLER")]
pub fn handler(_a: A) -> Response {
    Response::ok()
}
