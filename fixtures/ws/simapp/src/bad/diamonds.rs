//! One diamond that cloning solves next to one that nothing solves, in the same handler graph.
use pavex::Response;

#[derive(Clone)]
pub struct A;
#[derive(Clone)]
pub struct B;
pub struct C;
pub struct D;

pub struct A2;
pub struct B2;
pub struct C2;
pub struct D2;

#[pavex::request_scoped(id = "TD_A", clone_if_necessary)]
pub fn a() -> A {
    A
}
#[pavex::request_scoped(id = "TD_B", clone_if_necessary)]
pub fn b() -> B {
    B
}
#[pavex::request_scoped(id = "TD_C")]
pub fn c(_a: A, _b: &B) -> C {
    C
}
#[pavex::request_scoped(id = "TD_D")]
pub fn d(_a: &A, _b: B) -> D {
    D
}

#[pavex::request_scoped(id = "TD_A2")]
pub fn a2() -> A2 {
    A2
}
#[pavex::request_scoped(id = "TD_B2")]
pub fn b2() -> B2 {
    B2
}
#[pavex::request_scoped(id = "TD_C2")]
pub fn c2(_a: A2, _b: &B2) -> C2 {
    C2
}
#[pavex::request_scoped(id = "TD_D2")]
pub fn d2(_a: &A2, _b: B2) -> D2 {
    D2
}

#[pavex::get(path = "/two-diamonds", id = "TD_HANDLER")]
pub fn handler(_c: C, _d: D, _c2: C2, _d2: D2) -> Response {
    Response::ok()
}

/// Only the unsolvable diamond.
#[pavex::get(path = "/one-diamond", id = "OD_HANDLER")]
pub fn handler_unsolvable(_c2: C2, _d2: D2) -> Response {
    Response::ok()
}

/// A second handler over the very same unsolvable diamond: every diagnostic of the first handler's
/// call graph is reported again, word for word, for this one.
#[pavex::get(path = "/one-diamond-again", id = "OD_HANDLER_AGAIN")]
pub fn handler_unsolvable_again(_c2: C2, _d2: D2) -> Response {
    Response::ok()
}
