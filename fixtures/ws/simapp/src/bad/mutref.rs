use pavex::Response;

pub struct Counter(pub u32);

#[pavex::request_scoped(id = "COUNTER")]
pub fn counter() -> Counter {
    Counter(0)
}

pub struct Bumped;

/// Constructors cannot take `&mut` inputs.
#[pavex::request_scoped(id = "BUMPED")]
pub fn bumped(c: &mut Counter) -> Bumped {
    c.0 += 1;
    Bumped
}

#[pavex::get(path = "/bumped", id = "NEEDS_BUMPED")]
pub fn needs_bumped(_b: &Bumped) -> Response {
    Response::ok()
}
