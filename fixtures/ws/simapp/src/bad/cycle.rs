use pavex::Response;

pub struct A;
pub struct B;
pub struct C;

#[pavex::request_scoped(id = "CYCLE_A")]
pub fn a(_b: &B) -> A {
    A
}

#[pavex::request_scoped(id = "CYCLE_B")]
pub fn b(_c: &C) -> B {
    B
}

#[pavex::request_scoped(id = "CYCLE_C")]
pub fn c(_a: &A) -> C {
    C
}

#[pavex::get(path = "/cycle", id = "NEEDS_CYCLE")]
pub fn needs_cycle(_b: &B) -> Response {
    Response::ok()
}
