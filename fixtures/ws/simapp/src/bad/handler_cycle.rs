use pavex::Response;

/// A cycle of transient constructors that is reachable ONLY through the input of an error handler.
pub struct A;
pub struct B;
#[derive(Debug)]
pub struct E;

#[pavex::transient(id = "HC_A")]
pub fn a(_b: B) -> A {
    A
}

#[pavex::transient(id = "HC_B")]
pub fn b(_a: A) -> B {
    B
}

#[pavex::get(path = "/handler_cycle", id = "HC_HANDLER")]
pub fn handler() -> Result<Response, E> {
    Err(E)
}

#[pavex::error_handler(id = "HC_ERROR_HANDLER")]
pub fn error_handler(#[px(error_ref)] _e: &E, _a: A) -> Response {
    Response::internal_server_error()
}
