//! A constructor that needs the very type it builds (a dependency cycle of length one).
use pavex::Response;

pub struct HttpClient;

#[pavex::request_scoped(id = "SC_CLIENT")]
pub fn with_timeout(_inner: &HttpClient) -> HttpClient {
    HttpClient
}

#[pavex::get(path = "/self-cycle", id = "SC_HANDLER")]
pub fn handler(_c: &HttpClient) -> Response {
    Response::ok()
}

pub struct Retrier;

#[pavex::transient(id = "SC_RETRIER")]
pub fn retrying(_inner: Retrier) -> Retrier {
    Retrier
}

#[pavex::get(path = "/self-cycle-transient", id = "SC_HANDLER_T")]
pub fn handler_t(_r: Retrier) -> Response {
    Response::ok()
}
