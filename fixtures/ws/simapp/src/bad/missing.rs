use pavex::Response;

/// No constructor anywhere.
pub struct Orphan;

#[pavex::get(path = "/orphan", id = "NEEDS_ORPHAN")]
pub fn needs_orphan(_o: &Orphan) -> Response {
    Response::ok()
}

pub struct Half;

/// Constructor whose own input has no constructor.
#[pavex::request_scoped(id = "HALF")]
pub fn half(_o: Orphan) -> Half {
    Half
}

#[pavex::get(path = "/half", id = "NEEDS_HALF")]
pub fn needs_half(_h: Half) -> Response {
    Response::ok()
}
