use pavex::Response;

pub struct Fragile;

#[derive(Debug, thiserror::Error)]
#[error("fragile")]
pub struct FragileError;

#[pavex::request_scoped(id = "FRAGILE")]
pub fn fragile() -> Result<Fragile, FragileError> {
    Ok(Fragile)
}

#[pavex::error_handler(id = "FRAGILE_ERROR_HANDLER")]
pub fn fragile_error_handler(_e: &FragileError) -> Response {
    Response::internal_server_error()
}

/// Error observers cannot depend on fallible components.
#[pavex::error_observer(id = "FRAGILE_OBSERVER")]
pub fn fragile_observer(_f: Fragile, _e: &pavex::Error) {}

/// Error observers must return the unit type.
#[pavex::error_observer(id = "NON_UNIT_OBSERVER")]
pub fn non_unit_observer(_e: &pavex::Error) -> u8 {
    0
}

#[pavex::get(path = "/fragile", id = "NEEDS_FRAGILE")]
pub fn needs_fragile(_f: &Fragile) -> Response {
    Response::ok()
}
