//! Components that are valid Rust but violate one of pavexc's rules.
pub mod cycle;
pub mod diamonds;
pub mod generic;
pub mod lifecycle;
pub mod missing;
pub mod mutref;
pub mod noclone;
pub mod observer;
pub mod observer_cycle;
pub mod overlap;
pub mod pathparam;
pub mod scopes;
pub mod selfcycle;
pub mod unicode;
pub mod unit;
pub mod keyword;
