//! The same singleton type built by one constructor in the parent blueprint and by another one in a
//! nested blueprint, with request handlers in both scopes asking for it.
use pavex::Response;

pub struct Quota(pub u64);

#[pavex::singleton(id = "SC_PARENT_QUOTA")]
pub fn parent_quota() -> Quota {
    Quota(1)
}

#[pavex::singleton(id = "SC_CHILD_QUOTA")]
pub fn child_quota() -> Quota {
    Quota(2)
}

#[pavex::get(path = "/scopes/parent", id = "SC_PARENT")]
pub fn parent(q: &Quota) -> Response {
    Response::ok().set_typed_body(format!("{}", q.0))
}

#[pavex::get(path = "/scopes/child", id = "SC_CHILD")]
pub fn child(q: &Quota) -> Response {
    Response::ok().set_typed_body(format!("{}", q.0))
}
