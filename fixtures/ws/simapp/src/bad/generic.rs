use pavex::Response;

pub struct Boxed;

/// A generic input parameter that does not appear in the output type.
#[pavex::request_scoped(id = "BOXED")]
pub fn boxed<T>(_t: T) -> Boxed {
    Boxed
}

/// A naked generic output.
#[pavex::request_scoped(id = "NAKED")]
pub fn naked<T: Default>() -> T {
    T::default()
}

#[pavex::get(path = "/boxed", id = "NEEDS_BOXED")]
pub fn needs_boxed(_b: &Boxed) -> Response {
    Response::ok()
}
