use pavex::Response;

/// Constructors cannot return the unit type.
#[pavex::request_scoped(id = "UNIT")]
pub fn unit() {}

pub struct Plain;

/// An error handler registered for an infallible constructor.
#[pavex::request_scoped(id = "PLAIN")]
pub fn plain() -> Plain {
    Plain
}

#[derive(Debug, thiserror::Error)]
#[error("plain")]
pub struct PlainError;

#[pavex::error_handler(id = "PLAIN_ERROR_HANDLER")]
pub fn plain_error_handler(_e: &PlainError) -> Response {
    Response::internal_server_error()
}

#[pavex::get(path = "/plain", id = "NEEDS_PLAIN")]
pub fn needs_plain(_p: &Plain) -> Response {
    Response::ok()
}

/// Handlers must return something that implements `IntoResponse`.
#[pavex::get(path = "/noresponse", id = "NO_RESPONSE")]
pub fn no_response() -> Plain {
    Plain
}

/// A fallback must return something that implements `IntoResponse`, too.
#[pavex::fallback(id = "UNIT_FALLBACK")]
pub fn unit_fallback() {}
