//! Two routes that conflict, registered on lines whose text is not ASCII: whoever turns a
//! (line, column) pair into a byte offset has to count characters, not bytes.
use pavex::Response;

#[pavex::get(path = "/日本語/{a}", id = "UNI_A")]
pub fn 取得(#[allow(unused)] _p: &pavex::request::path::RawPathParams<'_, '_>) -> Response {
    Response::ok()
}

#[pavex::get(path = "/日本語/{b}", id = "UNI_B")]
pub fn 更新() -> Response {
    Response::ok()
}
