use pavex::Response;

/// A configuration key that is a Rust keyword: it passes the "letters, digits, underscores" rule
/// but cannot be used as the name of a field of the generated `ApplicationConfig`.
#[derive(Debug, Clone, Default, serde::Deserialize)]
#[pavex::config(key = "type", id = "KEYWORD_CONFIG", default_if_missing)]
pub struct KindConfig {
    pub kind: String,
}

#[pavex::get(path = "/keyword", id = "NEEDS_KEYWORD_CONFIG")]
pub fn needs_keyword_config(_c: &KindConfig) -> Response {
    Response::ok()
}
