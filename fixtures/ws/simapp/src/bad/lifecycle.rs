use pavex::Response;

pub struct PerRequest;

#[pavex::request_scoped(id = "PER_REQUEST")]
pub fn per_request() -> PerRequest {
    PerRequest
}

pub struct Global;

/// A singleton cannot depend on a request-scoped component.
#[pavex::singleton(id = "GLOBAL")]
pub fn global(_p: PerRequest) -> Global {
    Global
}

#[pavex::get(path = "/global", id = "NEEDS_GLOBAL")]
pub fn needs_global(_g: &Global) -> Response {
    Response::ok()
}
