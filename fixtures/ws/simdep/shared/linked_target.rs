// Reached through the symbolic link `src/linked.rs` (code shared between crates is often linked
// like this): editing this file edits the crate.
#[pavex::request_scoped(id = "DEP_LINKED")]
pub fn make_linked(gadget: &crate::types::Gadget) -> crate::types::Linked {
    crate::types::Linked(gadget.0)
}

#[pavex::get(path = "/dep/linked", id = "DEP_GET_LINKED")]
pub fn dep_get_linked(v: &crate::types::Linked) -> pavex::Response {
    pavex::Response::ok().set_typed_body(format!("{}", v.0))
}
