// Source text that lives OUTSIDE `src/` (pulled in with `#[path]` from lib.rs): it is part of the
// crate all the same, and an edit here must invalidate cached docs like any other.
#[pavex::request_scoped(id = "DEP_OUTSIDE")]
pub fn make_outside(gadget: &crate::types::Gadget) -> crate::types::Outside {
    crate::types::Outside(gadget.0)
}

#[pavex::get(path = "/dep/outside", id = "DEP_GET_OUTSIDE")]
pub fn dep_get_outside(v: &crate::types::Outside) -> pavex::Response {
    pavex::Response::ok().set_typed_body(format!("{}", v.0))
}
