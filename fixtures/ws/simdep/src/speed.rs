//! An annotated constructor whose signature depends on a cargo feature of this crate: the JSON
//! docs of one and the same source tree differ with the feature set the consumer activates.
use crate::types::Speed;

#[cfg(not(feature = "turbo"))]
#[pavex::request_scoped(id = "DEP_SPEED")]
pub fn make_speed(gadget: &crate::types::Gadget) -> Speed {
    Speed(gadget.0)
}

#[cfg(feature = "turbo")]
#[pavex::request_scoped(id = "DEP_SPEED")]
pub fn make_speed(pool: &crate::types::Pool) -> Speed {
    Speed(pool.0 * 2)
}

#[pavex::get(path = "/dep/speed", id = "DEP_GET_SPEED")]
pub fn dep_get_speed(speed: &Speed) -> pavex::Response {
    pavex::Response::ok().set_typed_body(format!("{}", speed.0))
}
