//! Plain types, no annotations here.

pub struct Pool(pub u32);

#[derive(Clone)]
pub struct Gadget(pub u32);

pub struct Thing(pub u32);

pub struct Widget(pub u32);

pub struct Extra(pub u32);

pub struct Speed(pub u32);

pub struct Outside(pub u32);

pub struct Linked(pub u32);

pub struct Token(pub String);

#[derive(Debug)]
pub struct DepError(pub &'static str);

impl std::fmt::Display for DepError {
    fn fmt(&self, f: &mut std::fmt::Formatter<'_>) -> std::fmt::Result {
        write!(f, "{}", self.0)
    }
}

impl std::error::Error for DepError {}
