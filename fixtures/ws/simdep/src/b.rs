//@item
#[pavex::transient(id = "DEP_WIDGET")]
pub fn make_widget() -> crate::types::Widget {
    crate::types::Widget(7)
}
//@item
#[pavex::request_scoped(id = "DEP_TOKEN")]
pub fn make_token(
    head: &pavex::request::RequestHead,
) -> Result<crate::types::Token, crate::types::DepError> {
    match head.headers.get("x-token") {
        Some(v) => Ok(crate::types::Token(
            v.to_str().unwrap_or_default().to_owned(),
        )),
        None => Err(crate::types::DepError("missing token")),
    }
}
//@item
#[pavex::error_handler(id = "DEP_ERROR_HANDLER")]
pub fn dep_error_handler(e: &crate::types::DepError) -> pavex::Response {
    pavex::Response::unauthorized().set_typed_body(e.0)
}
