//! Path dependency of `simapp`.
//!
//! Every item in `a.rs`, `b.rs` and `c.rs` is written with fully qualified paths and is preceded
//! by a `//@item` marker line, so that the simulator can move the text of an item from the end of
//! one file to the beginning of the path-adjacent next file (and back) without breaking the build.
pub mod a;
pub mod b;
pub mod c;
pub mod badge;
pub mod speed;
pub mod types;
// a module whose file is a symbolic link, and one whose file lives outside `src/`
pub mod linked;
#[path = "../shared/outside.rs"]
pub mod outside;

/// Only reachable through the `#[doc(hidden)]` re-export below: whether rustdoc documents hidden
/// items decides under which path the type is known.
pub mod sealed {
    pub struct Badge(pub u32);
}
// Kept for old call sites, no longer advertised.
#[doc(hidden)]
pub use sealed::Badge;

// Source text that lives in a file WITHOUT the `.rs` extension (pulled in by `include!`): it is
// part of the crate all the same, and an edit there must invalidate cached docs like any other.
include!("extra.inc");
