//! Path dependency of `simapp`.
//!
//! Every item in `a.rs`, `b.rs` and `c.rs` is written with fully qualified paths and is preceded
//! by a `//@item` marker line, so that the simulator can move the text of an item from the end of
//! one file to the beginning of the path-adjacent next file (and back) without breaking the build.
pub mod a;
pub mod b;
pub mod c;
pub mod speed;
pub mod types;

// Source text that lives in a file WITHOUT the `.rs` extension (pulled in by `include!`): it is
// part of the crate all the same, and an edit there must invalidate cached docs like any other.
include!("extra.inc");
