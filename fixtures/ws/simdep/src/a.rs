//@item
#[pavex::singleton(id = "DEP_POOL")]
pub fn make_pool(cfg: &crate::c::DepConfig) -> crate::types::Pool {
    crate::types::Pool(cfg.size)
}
//@item
#[pavex::request_scoped(id = "DEP_GADGET", clone_if_necessary)]
pub fn make_gadget(pool: &crate::types::Pool) -> crate::types::Gadget {
    crate::types::Gadget(pool.0)
}
//@item
#[pavex::request_scoped(id = "DEP_THING")]
pub fn make_thing(gadget: &crate::types::Gadget) -> crate::types::Thing {
    crate::types::Thing(gadget.0 + 1)
}
