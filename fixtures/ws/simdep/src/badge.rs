//! A constructor whose output type is named through a `#[doc(hidden)]` re-export.

#[pavex::request_scoped(id = "DEP_BADGE")]
pub fn make_badge() -> crate::Badge {
    crate::Badge(7)
}
