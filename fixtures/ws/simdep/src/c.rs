//@item
#[derive(Debug, Clone, serde::Deserialize)]
#[pavex::config(key = "dep", id = "DEP_CONFIG")]
pub struct DepConfig {
    pub size: u32,
}
//@item
#[pavex::pre_process(id = "DEP_GUARD")]
pub fn dep_guard(_widget: crate::types::Widget) -> pavex::middleware::Processing {
    pavex::middleware::Processing::Continue
}
//@item
#[pavex::get(path = "/dep/health", id = "DEP_HEALTH")]
pub fn dep_health(pool: &crate::types::Pool) -> pavex::Response {
    pavex::Response::ok().set_typed_body(format!("{}", pool.0))
}
//@item
#[pavex::get(path = "/dep/things/{thing_id}", id = "DEP_GET_THING")]
pub fn dep_get_thing(
    thing: &crate::types::Thing,
    _params: &pavex::request::path::RawPathParams<'_, '_>,
) -> pavex::Response {
    pavex::Response::ok().set_typed_body(format!("{}", thing.0))
}
